"""Engine E3, property C07: real shared libraries.

A case: a small class tree and two methods declared in a common header; a
host program and 2..3 generated shared objects, each contributing definitions
and possibly a new leaf class (registered incrementally, use_classes<D, B>
style); a script of dlopen / dlclose / update+check steps.  After every update
the host calls both methods on every tuple of the classes currently known and
prints what ran; the expected transcript is computed here by brute force from
the definitions of the modules loaded at that point (the documented
resolution rule).  Built with clang++ (no STB_GNU_UNIQUE, so dlclose really
unloads and runs the registration objects' destructors), ASan + UBSan.
"""
import hashlib
import json
import os
import random
import subprocess


def gen_case(rng):
    n = rng.randint(3, 6)
    parent = [None] + [rng.randrange(c) for c in range(1, n)]
    nlibs = rng.randint(2, 3)
    libs = []
    next_cls = n
    for l in range(nlibs):
        lib = {"new_class_parent": None, "defs1": [], "defs2": []}
        if rng.random() < 0.6:
            lib["new_class_parent"] = rng.randrange(n)
            lib["new_class"] = next_cls
            next_cls += 1
        libs.append(lib)
    host = {"defs1": [], "defs2": []}

    def classes_for(module):
        cs = list(range(n))
        if module is not None and libs[module]["new_class_parent"] is not None:
            cs.append(libs[module]["new_class"])
        return cs
    used1, used2 = set(), set()
    for module in [None] + list(range(nlibs)):
        target = host if module is None else libs[module]
        cs = classes_for(module)
        for _ in range(rng.randint(0, 3)):
            c = rng.choice(cs)
            if c not in used1:
                used1.add(c)
                target["defs1"].append(c)
        for _ in range(rng.randint(0, 3)):
            t = (rng.choice(cs), rng.choice(cs))
            if t not in used2:
                used2.add(t)
                target["defs2"].append(list(t))
    # script
    loaded = set()
    script = ["check"]
    for _ in range(rng.randint(3, 9)):
        l = rng.randrange(nlibs)
        if l in loaded:
            loaded.discard(l)
            script.append("unload %d" % l)
        else:
            loaded.add(l)
            script.append("load %d" % l)
        if rng.random() < 0.8:
            script.append("check")
        if rng.random() < 0.2:
            script.append("check")  # update again with no change
    script.append("check")
    return {"n": n, "parent": parent, "libs": libs, "host": host,
            "script": script}


def case_key(case):
    return json.dumps(case, sort_keys=True)


def parent_of(case, c):
    if c < case["n"]:
        return case["parent"][c]
    for lib in case["libs"]:
        if lib.get("new_class") == c:
            return lib["new_class_parent"]
    return None


def ancestors(case, c):
    out = [c]
    while parent_of(case, c) is not None:
        c = parent_of(case, c)
        out.append(c)
    return out


def select(case, defs, tup):
    """defs: list of (tuple, code). returns code, 'N' or 'A'"""
    app = [(d, code) for d, code in defs
           if all(d[i] in ancestors(case, tup[i]) for i in range(len(tup)))]
    if not app:
        return "N"

    def more_specific(a, b):
        some = False
        for x, y in zip(a, b):
            if x == y:
                continue
            if x in ancestors(case, y):  # x proper base of y
                return False
            if y in ancestors(case, x):
                some = True
        return some
    for d, code in app:
        if all(e is d or more_specific(d, e) for e, _ in app):
            return str(code)
    return "A"


def expected_transcript(case):
    loaded = set()
    lines = []
    for step in case["script"]:
        if step.startswith("load"):
            loaded.add(int(step.split()[1]))
        elif step.startswith("unload"):
            loaded.discard(int(step.split()[1]))
        else:
            classes = list(range(case["n"]))
            defs1 = [((c,), 100 + c) for c in case["host"]["defs1"]]
            defs2 = [(tuple(t), 1000 + 20 * t[0] + t[1])
                     for t in case["host"]["defs2"]]
            for l in sorted(loaded):
                lib = case["libs"][l]
                if lib["new_class_parent"] is not None:
                    classes.append(lib["new_class"])
                defs1 += [((c,), 100 + c) for c in lib["defs1"]]
                defs2 += [(tuple(t), 1000 + 20 * t[0] + t[1])
                          for t in lib["defs2"]]
            row = []
            for c in classes:
                row.append(select(case, defs1, (c,)))
            for a in classes:
                for b in classes:
                    row.append(select(case, defs2, (a, b)))
            lines.append("check " + " ".join(row))
    return lines


def emit(case):
    n = case["n"]
    common = ["#ifndef COMMON_HPP", "#define COMMON_HPP",
              "#include <yorel/yomm2/keywords.hpp>"]
    for c in range(n):
        p = case["parent"][c]
        common.append("struct K%d%s { %s int pad%d = %d; };" % (
            c, " : K%d" % p if p is not None else "",
            "virtual ~K0() {}" if c == 0 else "", c, c))
        if p is None:
            common.append("register_classes(K%d);" % c)
        else:
            # incremental style: the class and its direct base only
            common.append("register_classes(K%d, K%d);" % (c, p))
    common.append("declare_method(int, m1, (virtual_<K0&>));")
    common.append("declare_method(int, m2, (virtual_<K0&>, virtual_<K0&>));")
    common.append("#endif")
    files = {"common.hpp": "\n".join(common)}

    def defs_text(module):
        out = []
        for c in module["defs1"]:
            out.append("define_method(int, m1, (K%d&)) { return %d; }" % (
                c, 100 + c))
        for a, b in module["defs2"]:
            out.append("define_method(int, m2, (K%d&, K%d&)) { return %d; }"
                       % (a, b, 1000 + 20 * a + b))
        return "\n".join(out)
    for l, lib in enumerate(case["libs"]):
        text = ["#include \"common.hpp\""]
        if lib["new_class_parent"] is not None:
            text.append("struct K%d : K%d { int pad%d = %d; };" % (
                lib["new_class"], lib["new_class_parent"], lib["new_class"],
                lib["new_class"]))
            text.append("register_classes(K%d, K%d);" % (
                lib["new_class"], lib["new_class_parent"]))
            text.append("extern \"C\" K0* make_lib%d() { return new K%d; }" % (
                l, lib["new_class"]))
        else:
            text.append("extern \"C\" K0* make_lib%d() { return nullptr; }"
                        % l)
        text.append(defs_text(lib))
        files["lib%d.cpp" % l] = "\n".join(text)
    host = ["#include \"common.hpp\"", "#include <dlfcn.h>",
            "#include <cstdio>", "#include <string>", "#include <vector>",
            "#include <unistd.h>", "#include <cstring>",
            "using namespace yorel::yomm2;", defs_text(case["host"]),
            "struct NotImpl {}; struct Ambig {};",
            "static std::string call1(K0& a) { try { return "
            "std::to_string(m1(a)); } catch (NotImpl&) { return \"N\"; } "
            "catch (Ambig&) { return \"A\"; } }",
            "static std::string call2(K0& a, K0& b) { try { return "
            "std::to_string(m2(a, b)); } catch (NotImpl&) { return \"N\"; } "
            "catch (Ambig&) { return \"A\"; } }",
            "int main() {",
            "    set_error_handler([](const error_type& e) { if (auto r = "
            "std::get_if<resolution_error>(&e)) { if (r->status == "
            "resolution_error::ambiguous) throw Ambig(); throw NotImpl(); } "
            "std::printf(\"ERROR other error reported\\n\"); fflush(stdout); "
            "_exit(3); });",
            "    char dir[4096]; dir[readlink(\"/proc/self/exe\", dir, "
            "sizeof(dir) - 1)] = 0; *strrchr(dir, '/') = 0;",
            "    void* handle[%d] = {};" % len(case["libs"]),
            "    K0* extra[%d] = {};" % len(case["libs"])]
    for c in range(n):
        host.append("    K%d o%d;" % (c, c))
    host.append("    std::vector<K0*> base = {%s};" % ", ".join(
        "&o%d" % c for c in range(n)))
    for step in case["script"]:
        if step.startswith("load"):
            l = int(step.split()[1])
            host.append("    { std::string p = std::string(dir) + "
                        "\"/liblib%d.so\"; handle[%d] = dlopen(p.c_str(), "
                        "RTLD_NOW); if (!handle[%d]) { std::printf(\"ERROR "
                        "dlopen %%s\\n\", dlerror()); return 2; } auto mk = "
                        "(K0* (*)())dlsym(handle[%d], \"make_lib%d\"); "
                        "extra[%d] = mk ? mk() : nullptr; }" % (
                            l, l, l, l, l, l))
        elif step.startswith("unload"):
            l = int(step.split()[1])
            host.append("    { delete extra[%d]; extra[%d] = nullptr; "
                        "dlclose(handle[%d]); handle[%d] = nullptr; }" % (
                            l, l, l, l))
        else:
            host.append("    { update(); std::vector<K0*> objs = base; for "
                        "(auto e : extra) if (e) objs.push_back(e); "
                        "std::string row = \"check\"; for (auto a : objs) row "
                        "+= \" \" + call1(*a); for (auto a : objs) for (auto "
                        "b : objs) row += \" \" + call2(*a, *b); "
                        "std::printf(\"%s\\n\", row.c_str()); }")
    host.append("    for (auto e : extra) delete e;")
    host.append("    fflush(stdout); _exit(0);")
    host.append("}")
    files["host.cpp"] = "\n".join(host)
    return files


def run_case(args):
    case, workdir, name, inc = args
    d = os.path.join(workdir, name)
    os.makedirs(d, exist_ok=True)
    files = emit(case)
    for fn, text in files.items():
        with open(os.path.join(d, fn), "w") as f:
            f.write(text)
    san = ["-fsanitize=address,undefined", "-fno-sanitize-recover=undefined"]
    base = ["clang++", "-std=c++17", "-g0", "-O1", "-w", "-I" + inc, "-I" + d]
    status, msg = "PASS", ""

    def first_error(p):
        for line in p.stderr.splitlines():
            if "error" in line:
                return line.strip()[:300]
        return p.stderr[-300:]
    for l in range(len(case["libs"])):
        p = subprocess.run(base + san + ["-shared", "-fPIC",
                                         os.path.join(d, "lib%d.cpp" % l),
                                         "-o",
                                         os.path.join(d, "liblib%d.so" % l)],
                           capture_output=True, text=True)
        if p.returncode != 0:
            status, msg = "SKIP", "library does not compile: " + \
                first_error(p)
    if status == "PASS":
        p = subprocess.run(base + san + ["-rdynamic",
                                         os.path.join(d, "host.cpp"), "-o",
                                         os.path.join(d, "host"), "-ldl"],
                           capture_output=True, text=True)
        if p.returncode != 0:
            status, msg = "SKIP", "host does not compile: " + first_error(p)
    if status == "PASS":
        env = dict(os.environ)
        env["ASAN_OPTIONS"] = "detect_leaks=0"
        r = subprocess.run([os.path.join(d, "host")], capture_output=True,
                           text=True, env=env)
        got = [l for l in r.stdout.splitlines() if l.startswith("check")]
        want = expected_transcript(case)
        if r.returncode != 0:
            status = "FAIL"
            msg = "crash: host exited with %d after %d checks: %s" % (
                r.returncode, len(got),
                (r.stdout[-150:] + " " + r.stderr[-300:]).strip())
        elif got != want:
            status = "FAIL"
            k = next((i for i in range(min(len(got), len(want)))
                      if got[i] != want[i]), min(len(got), len(want)))
            msg = "transcript: after the update of check #%d the calls give " \
                  "'%s', the loaded modules define '%s'" % (
                      k, got[k] if k < len(got) else "(missing)",
                      want[k] if k < len(want) else "(none)")
    subprocess.run(["rm", "-rf", d])
    unloads = sum(1 for s in case["script"] if s.startswith("unload"))
    return status, msg, unloads


def _hash(case):
    return int.from_bytes(hashlib.sha256(case_key(case).encode()).digest()[:8],
                          "little")


def check(tier, seed, scratch, inc, ncpu, pool_map, prop="C07"):
    n = 6 if tier == "quick" else 64
    rng = random.Random(seed * 32452843 + (1 if tier == "quick" else 2))
    cases = [gen_case(rng) for _ in range(n)]
    results = pool_map(run_case, [(c, scratch, "c07_%d" % i, inc)
                                  for i, c in enumerate(cases)])
    res = dict(evaluations=0, nontrivial=0, inconclusive=0, classes={},
               excluded={}, samples=[], failures=[], hashes=set())
    for case, (status, msg, unloads) in zip(cases, results):
        res["evaluations"] += 1
        res["classes"]["dlopen_program"] = \
            res["classes"].get("dlopen_program", 0) + 1
        if status == "SKIP":
            res["inconclusive"] += 1
            continue
        if unloads:
            res["classes"]["dlclose_then_update"] = \
                res["classes"].get("dlclose_then_update", 0) + 1
            res["nontrivial"] += 1
            res["hashes"].add(_hash(case))
            if len(res["samples"]) < 1:
                res["samples"].append(case)
        if status != "PASS":
            res["failures"].append({"property": prop, "engine": "c07",
                                    "case": case, "message": msg})
    return res


def replay(case, scratch, inc):
    status, msg, _ = run_case((case, scratch, "c07_replay_%d" % os.getpid(),
                               inc))
    if status == "SKIP":
        return "PASS", msg
    return status, msg


def shrinks(case):
    out = []
    for i in range(len(case["script"])):
        c = json.loads(json.dumps(case))
        del c["script"][i]
        # keep the script consistent: loads and unloads must alternate
        loaded, ok = set(), True
        for s in c["script"]:
            if s.startswith("load"):
                l = int(s.split()[1])
                ok = ok and l not in loaded
                loaded.add(l)
            elif s.startswith("unload"):
                l = int(s.split()[1])
                ok = ok and l in loaded
                loaded.discard(l)
        if ok:
            out.append(c)
    for key in ("defs1", "defs2"):
        for i in range(len(case["host"][key])):
            c = json.loads(json.dumps(case))
            del c["host"][key][i]
            out.append(c)
        for l in range(len(case["libs"])):
            for i in range(len(case["libs"][l][key])):
                c = json.loads(json.dumps(case))
                del c["libs"][l][key][i]
                out.append(c)
    return out
