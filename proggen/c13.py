"""Engine E3, properties C12 / C13: the generated text as source code.

A case is a small random typed registry (classes in an inheritance DAG,
possibly in a namespace, methods of arity 1..3, definitions, policy).  Stage A
compiles it, runs update, records what every tuple of dynamic classes does,
and writes the forward declarations + static offsets (gen_slots.hpp) and the
encoded dispatch data (gen_tables.hpp).  Stage B compiles the same registry
*with* the generated files (static offsets in effect, consistency check live
under the checked policy), with g++ and with clang++, decodes instead of
updating, and must reproduce stage A's record exactly.
"""
import hashlib
import json
import os
import random
import subprocess


def gen_case(rng):
    n = rng.randint(2, 8)
    bases = [[]]
    for c in range(1, n):
        k = rng.choice([0, 1, 1, 1, 2, 2, 3])
        bases.append(sorted(set(rng.randrange(c) for _ in range(k))))
    nm = rng.randint(1, 3)
    meths = []
    for m in range(nm):
        arity = rng.choice([1, 1, 2, 2, 3])
        vp = [rng.randrange(n) for _ in range(arity)]
        meths.append({"vp": vp, "defs": [],
                      "extra_int": rng.random() < 0.4})
    case = {"n": n, "bases": bases, "meths": meths,
            "namespace": rng.choice(["", "", "app", "app::model"]),
            "policy": rng.choice(["debug", "release"]),
            "reg_order": rng.sample(range(n), n)}
    case["slots_late"] = rng.random() < 0.5
    case["again"] = sorted(rng.sample(range(n), rng.randint(1, n))) \
        if rng.random() < 0.4 else []
    # definitions: tuples of classes derived from the parameter classes
    anc = ancestors(case)
    for m in meths:
        nd = rng.randint(0, 5)
        seen = set()
        for _ in range(nd):
            t = tuple(rng.choice([c for c in range(n) if p in anc[c]])
                      for p in m["vp"])
            if t not in seen:
                seen.add(t)
                m["defs"].append(list(t))
    return case


def ancestors(case):
    n = case["n"]
    anc = [set([c]) for c in range(n)]
    for c in range(n):
        for b in case["bases"][c]:
            anc[c] |= anc[b]
    return anc


def case_key(case):
    return json.dumps(case, sort_keys=True)


def has_diamond(case):
    n = case["n"]
    # a class reaching some ancestor through two different direct bases
    anc = ancestors(case)
    for c in range(n):
        bs = case["bases"][c]
        for i in range(len(bs)):
            for j in range(i + 1, len(bs)):
                if anc[bs[i]] & anc[bs[j]]:
                    return True
    return False


def emit(case):
    n = case["n"]
    ns = case["namespace"]
    virt = "virtual " if has_diamond(case) else ""
    q = (ns + "::") if ns else ""
    out = []
    out.append("#include <yorel/yomm2/policy.hpp>")
    out.append("struct pol : yorel::yomm2::policy::%s::rebind<pol>::replace<"
               "yorel::yomm2::policy::error_handler, "
               "yorel::yomm2::policy::throw_error> {};" % case["policy"])
    out.append("#define YOMM2_DEFAULT_POLICY pol")
    out.append("#include <yorel/yomm2/keywords.hpp>")
    # the generated offsets must be visible "before these methods are
    # called" (reference/generator.md): either ahead of everything, relying on
    # the generated forward declarations, or after the method declarations
    # (as tests/test_generator_domain.hpp does for one compiler)
    late = case.get("slots_late", False)
    if not late:
        out.append("#ifdef STAGE_B")
        out.append("#include \"gen_slots.hpp\"")
        out.append("#endif")
    for part in (ns.split("::") if ns else []):
        out.append("namespace %s {" % part)
    for c in range(n):
        bs = case["bases"][c]
        inh = (" : " + ", ".join("%spublic K%d" % (virt, b) for b in bs)) \
            if bs else ""
        out.append("class K%d%s { public: virtual ~K%d() {} long pad%d = %d; "
                   "};" % (c, inh, c, c, c))
    for _ in (ns.split("::") if ns else []):
        out.append("}")
    for c in range(n):
        out.append("using K%d = %sK%d;" % (c, q, c)) if ns else None
    for i, m in enumerate(case["meths"]):
        params = ["virtual_<K%d&>" % p for p in m["vp"]]
        if m["extra_int"]:
            params.insert(1 if len(params) > 1 else 0, "int")
        out.append("declare_method(int, m%d, (%s));" % (i, ", ".join(params)))
    out.append("#ifdef STAGE_B")
    if late:
        out.append("#include \"gen_slots.hpp\"")
    for i, m in enumerate(case["meths"]):
        params = ["virtual_<K%d&>" % p for p in m["vp"]]
        if m["extra_int"]:
            params.insert(1 if len(params) > 1 else 0, "int")
        out.append("static_assert(yorel::yomm2::detail::has_static_offsets<"
                   "method_class(int, m%d, (%s))>::value, \"generated offsets "
                   "are not picked up\");" % (i, ", ".join(params)))
    out.append("#endif")
    out.append("register_classes(%s);" % ", ".join(
        "K%d" % c for c in case.get("reg_order", range(n))))
    # the same classes registered once more, edge by edge (legal: a class may
    # be registered several times, e.g. by several translation units)
    for c in case.get("again", []):
        out.append("register_classes(%s);" % ", ".join(
            ["K%d" % c] + ["K%d" % b for b in case["bases"][c]]))
    for i, m in enumerate(case["meths"]):
        for d, t in enumerate(m["defs"]):
            params = ["K%d& a%d" % (c, k) for k, c in enumerate(t)]
            if m["extra_int"]:
                params.insert(1 if len(params) > 1 else 0, "int x")
            out.append("define_method(int, m%d, (%s)) { return %d%s; }" % (
                i, ", ".join(params), 1000 * (i + 1) + d,
                " + x" if m["extra_int"] else ""))
    out.append("#include <cstdio>")
    out.append("#include <fstream>")
    out.append("#include <string>")
    out.append("#ifdef STAGE_A")
    out.append("#include <yorel/yomm2/generator.hpp>")
    out.append("#else")
    out.append("#include <yorel/yomm2/decode.hpp>")
    out.append("#endif")
    out.append("using namespace yorel::yomm2;")
    out.append("static std::string record() {")
    out.append("    std::string r;")
    for c in range(n):
        out.append("    static K%d o%d;" % (c, c))
    anc = ancestors(case)
    for i, m in enumerate(case["meths"]):
        doms = [[c for c in range(n) if p in anc[c]] for p in m["vp"]]
        tuples = [[]]
        for dom in doms:
            tuples = [t + [c] for t in tuples for c in dom]
        for t in tuples[:200]:
            args = ["static_cast<K%d&>(o%d)" % (p, c)
                    for p, c in zip(m["vp"], t)]
            if m["extra_int"]:
                args.insert(1 if len(args) > 1 else 0, "7")
            out.append("    try { r += std::to_string(m%d(%s)); } catch "
                       "(const resolution_error& e) { r += e.status == "
                       "resolution_error::ambiguous ? \"A\" : \"N\"; } catch "
                       "(const static_offset_error&) { r += \"S\"; } r += "
                       "' ';" % (i, ", ".join(args)))
    out.append("    return r;")
    out.append("}")
    out.append("int main() {")
    out.append("#ifdef STAGE_A")
    out.append("    auto compiler = update<pol>();")
    out.append("    generator g;")
    out.append("    { std::ofstream slots(\"gen_slots.hpp\");")
    out.append("      g.add_forward_declarations<pol>()"
               ".write_forward_declarations(slots);")
    out.append("      g.write_static_offsets<pol>(slots); }")
    out.append("    { std::ofstream tables(\"gen_tables.hpp\");")
    out.append("      g.encode_dispatch_data(compiler, \"pol\", tables); }")
    out.append("    std::ofstream(\"expected.txt\") << record();")
    out.append("    return 0;")
    out.append("#else")
    out.append("#include \"gen_tables.hpp\"")
    out.append("    std::string got = record();")
    out.append("    std::string want; { std::ifstream f(\"expected.txt\"); "
               "std::getline(f, want, '\\0'); }")
    out.append("    if (got != want) { std::printf(\"FAIL decoded program "
               "behaves differently\\n  want %s\\n  got  %s\\n\", "
               "want.c_str(), got.c_str()); return 1; }")
    out.append("    std::printf(\"PASS\\n\");")
    out.append("    return 0;")
    out.append("#endif")
    out.append("}")
    return "\n".join(x for x in out if x is not None)


def run_case(args):
    case, workdir, name, inc = args
    d = os.path.join(workdir, name)
    os.makedirs(d, exist_ok=True)
    src = os.path.join(d, "prog.cpp")
    with open(src, "w") as f:
        f.write(emit(case))

    def cc(cxx, stage, exe):
        return subprocess.run(
            [cxx, "-std=c++17", "-g0", "-O0", "-w", "-I" + inc, "-I" + d,
             "-D" + stage, src, "-o", os.path.join(d, exe)],
            capture_output=True, text=True, cwd=d)

    def first_error(p):
        for line in p.stderr.splitlines():
            if "error" in line:
                return line.strip()[:300]
        return p.stderr[-300:]

    status, msg = "PASS", ""
    p = cc("clang++", "STAGE_A", "a")
    if p.returncode != 0:
        # the registry itself does not compile: generator problem, not the
        # library's (reported as inconclusive)
        status, msg = "SKIP", "stage A does not compile: " + first_error(p)
    else:
        r = subprocess.run([os.path.join(d, "a")], cwd=d, capture_output=True,
                           text=True)
        if r.returncode != 0:
            status, msg = "FAIL", "stage-a: update or the generator failed: " \
                + r.stderr[-200:]
        else:
            for cxx in ("g++", "clang++"):
                p = cc(cxx, "STAGE_B", "b_" + cxx)
                if p.returncode != 0:
                    status = "FAIL"
                    msg = "compile: %s rejects the generated text: %s" % (
                        cxx, first_error(p))
                    break
                env = dict(os.environ)
                r = subprocess.run([os.path.join(d, "b_" + cxx)], cwd=d,
                                   capture_output=True, text=True, env=env)
                if r.returncode != 0 or "PASS" not in r.stdout:
                    status = "FAIL"
                    msg = "decoded: (%s) %s %s" % (
                        cxx, r.stdout[-300:].strip(),
                        r.stderr[-200:].strip())
                    break
    subprocess.run(["rm", "-rf", d])
    multi = any(len(m["vp"]) >= 2 for m in case["meths"])
    arity3 = any(len(m["vp"]) >= 3 for m in case["meths"])
    mi = any(len(b) >= 2 for b in case["bases"])
    return status, msg, multi, arity3, mi


def _hash(case):
    return int.from_bytes(hashlib.sha256(case_key(case).encode()).digest()[:8],
                          "little")


def check(tier, seed, scratch, inc, ncpu, pool_map, prop="C13"):
    n = 6 if tier == "quick" else 48
    rng = random.Random(seed * 15485863 + (1 if tier == "quick" else 2))
    cases = [gen_case(rng) for _ in range(n)]
    results = pool_map(run_case, [(c, scratch, "c13_%d" % i, inc)
                                  for i, c in enumerate(cases)])
    res = dict(evaluations=0, nontrivial=0, inconclusive=0, classes={},
               excluded={}, samples=[], failures=[], hashes=set())
    for case, (status, msg, multi, arity3, mi) in zip(cases, results):
        res["evaluations"] += 1
        for label, flag in (("program_with_multi_method", multi),
                            ("program_with_arity3", arity3),
                            ("program_with_multiple_inheritance", mi),
                            ("program_in_namespace", bool(case["namespace"])),
                            ("program_policy_" + case["policy"], True)):
            if flag:
                res["classes"][label] = res["classes"].get(label, 0) + 1
        if status == "SKIP":
            res["inconclusive"] += 1
            continue
        if multi or mi:
            res["nontrivial"] += 1
            res["hashes"].add(_hash(case))
            if len(res["samples"]) < 2:
                res["samples"].append(case)
        if status != "PASS":
            res["failures"].append({"property": prop, "engine": "c13",
                                    "case": case, "message": msg})
    return res


def replay(case, scratch, inc):
    status, msg, *_ = run_case((case, scratch,
                                "c13_replay_%d" % os.getpid(), inc))
    if status == "SKIP":
        return "PASS", msg
    return status, msg


def shrinks(case):
    out = []
    for i in range(len(case["meths"])):
        if len(case["meths"]) > 1:
            c = json.loads(json.dumps(case))
            del c["meths"][i]
            out.append(c)
        for d in range(len(case["meths"][i]["defs"])):
            c = json.loads(json.dumps(case))
            del c["meths"][i]["defs"][d]
            out.append(c)
    if case["namespace"]:
        out.append(dict(case, namespace=""))
    return out
