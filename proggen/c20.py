"""Engine E3, property C20: generated programs for use_definitions / product.

A case: 2 or 3 type lists (lengths chosen so that the products fall on both
sides of the 512-element split of `aggregate`), a definition template, and a
pseudo-random subset of combinations marked not_defined.  Two styles: the
primary template is defined and the subset is specialised as not_defined, or
the primary is not_defined and the complement is specialised as defined.

Oracle (in the generated program): product<> has the expected size and the
expected element at sampled positions (small products: the whole list, by
static_assert); after update the method's catalog holds exactly one definition
per defined combination, calling the method with the exact classes of each
defined combination runs the definition of that combination (it returns its
own code), and every other combination is reported as not implemented.
"""
import hashlib
import json
import os
import random
import subprocess

SIZES2 = [(1, 1), (2, 3), (3, 3), (4, 2), (5, 7), (16, 32), (22, 23),
          (23, 23), (24, 24), (19, 27), (32, 16), (21, 24), (2, 256),
          (512, 1), (1, 513), (3, 171), (9, 57), (12, 43),
          # more than 1024: the split of `aggregate` recurses
          (33, 33), (34, 31)]
SIZES3 = [(2, 2, 2), (3, 2, 4), (8, 8, 8), (8, 8, 9), (7, 9, 8), (2, 16, 16),
          (4, 4, 33), (3, 13, 13), (9, 9, 9), (3, 13, 28)]


def gen_case(rng, tier):
    if rng.random() < 0.3:
        lens = list(rng.choice(SIZES3))
    else:
        lens = list(rng.choice(SIZES2))
    if tier == "quick" and max(lens) > 32:
        # very long lists make use_classes itself slow to compile
        lens = list(rng.choice([(16, 32), (22, 23), (24, 24), (32, 16)]))
    if tier == "quick" and rng.random() < 0.5:
        # keep half of the quick programs small (compile time)
        lens = list(rng.choice(SIZES2[:5] + [(4, 5), (6, 6)]))
    style = rng.choice(["default_defined", "default_not_defined", "traits",
                        "traits_private"])
    size = 1
    for n in lens:
        size *= n
    if size <= 100 and rng.random() < 0.4:
        # two methods with the same signature in the product's first list,
        # the definitions' fn inherited from a base that does not depend on
        # the method: the same function is a definition of both methods
        style = "shared_fn_two_methods"
    return {
        "lens": lens,
        "style": style,
        "p_not_defined": rng.choice([0.0, 0.1, 0.5, 0.9, 1.0]),
        "subset_seed": rng.randrange(1 << 30),
        # arbitrary types (incl. type lists) as list elements, and a second
        # method whose definitions are parameterised by a list of tags
        "element_kinds": rng.random() < 0.6,
    }


def case_key(case):
    return json.dumps(case, sort_keys=True)


def combos(lens):
    out = [[]]
    for n in lens:
        out = [c + [i] for c in out for i in range(n)]
    return out


def code_of(combo):
    v = 0
    for i in combo:
        v = v * 1000 + i + 1
    return v


def emit_two_methods(case):
    lens = case["lens"]
    arity = len(lens)
    nmax = max(lens)
    all_combos = combos(lens)
    nd = []
    for k in range(2):
        rng = random.Random(case["subset_seed"] + 11 * k)
        nd.append(set(tuple(c) for c in all_combos
                      if rng.random() < case["p_not_defined"]))
    out = []
    out.append("#include <yorel/yomm2/core.hpp>")
    out.append("#include <yorel/yomm2/symbols.hpp>")
    out.append("#include <yorel/yomm2/templates.hpp>")
    out.append("#include <cstdio>")
    out.append("using namespace yorel::yomm2;")
    out.append("namespace mp = boost::mp11;")
    out.append("struct Root { virtual ~Root() {} };")
    out.append("template<int I> struct K : Root { static constexpr int "
               "index = I; };")
    out.append("using pol = default_policy;")
    out.append("use_classes<Root, %s> YOMM2_GENSYM;" % ", ".join(
        "K<%d>" % i for i in range(nmax)))
    params = ", ".join(["virtual_<Root&>"] * arity)
    out.append("struct YOMM2_SYMBOL(meth); struct YOMM2_SYMBOL(meth2);")
    out.append("using meth = method<YOMM2_SYMBOL(meth), int(%s)>;" % params)
    out.append("using meth2 = method<YOMM2_SYMBOL(meth2), int(%s)>;" % params)
    targs = ", ".join("typename T%d" % i for i in range(arity))
    tnames = ", ".join("T%d" % i for i in range(arity))
    fparams = ", ".join("T%d&" % i for i in range(arity))
    codeexpr = "0"
    for i in range(arity):
        codeexpr = "(%s) * 1000 + T%d::index + 1" % (codeexpr, i)
    out.append("template<%s> struct impl { static int fn(%s) { return %s; } "
               "};" % (targs, fparams, codeexpr))
    out.append("template<typename M, %s> struct definition : impl<%s> {};" % (
        targs, tnames))
    for k, m in enumerate(("meth", "meth2")):
        for c in all_combos:
            if tuple(c) in nd[k]:
                out.append("template<> struct definition<%s, %s> : "
                           "not_defined {};" % (m, ", ".join(
                               "K<%d>" % i for i in c)))
    lists = ", ".join("types<%s>" % ", ".join("K<%d>" % i for i in range(n))
                      for n in lens)
    out.append("use_definitions<definition, product<types<meth, meth2>, %s>> "
               "YOMM2_GENSYM;" % lists)
    out.append("struct NotImplemented {};")
    for k in range(2):
        out.append("static const bool is_defined%d[] = {%s};" % (
            k, ", ".join("0" if tuple(c) in nd[k] else "1"
                         for c in all_combos)))
    out.append("template<class M> static int check(const bool* is_defined, "
               "std::size_t expected, const char* name) {")
    out.append("    int failures = 0;")
    out.append("    if (M::fn.specs.size() != expected) { std::printf(\"FAIL "
               "%s: the catalog holds %zu definitions, %zu combinations are "
               "defined\\n\", name, M::fn.specs.size(), expected); "
               "++failures; }")
    out.append("    Root* objs[%d];" % nmax)
    for i in range(nmax):
        out.append("    static K<%d> k%d; objs[%d] = &k%d;" % (i, i, i, i))
    out.append("    static const int lens[] = {%s};" % ", ".join(
        str(n) for n in lens))
    out.append("    int idx[%d] = {};" % arity)
    out.append("    for (int n = 0; n < %d; ++n) {" % len(all_combos))
    out.append("        int rem = n; for (int d = %d; d >= 0; --d) { idx[d] = "
               "rem %% lens[d]; rem /= lens[d]; }" % (arity - 1))
    out.append("        long code = 0; for (int d = 0; d < %d; ++d) code = "
               "code * 1000 + idx[d] + 1;" % arity)
    call = ", ".join("*objs[idx[%d]]" % d for d in range(arity))
    out.append("        int got = 0; bool ni = false;")
    out.append("        try { got = M::fn(%s); } catch (NotImplemented&) "
               "{ ni = true; } catch (int) { got = -2; }" % call)
    out.append("        if (is_defined[n] ? (ni || got != code) : !ni) {")
    out.append("            if (failures < 3) std::printf(\"FAIL %s "
               "combination #%d: %s\\n\", name, n, is_defined[n] ? (ni ? "
               "\"defined but not registered\" : \"another definition "
               "ran\") : \"marked not_defined but a definition ran\");")
    out.append("            ++failures;")
    out.append("        }")
    out.append("    }")
    out.append("    return failures;")
    out.append("}")
    out.append("int main() {")
    out.append("    pol::error = [](const error_type& e) { if (auto r = "
               "std::get_if<resolution_error>(&e)) { if (r->status == "
               "resolution_error::no_definition) throw NotImplemented(); } "
               "throw 1; };")
    out.append("    update();")
    ndef = [len(all_combos) - len(nd[k]) for k in range(2)]
    out.append("    int failures = check<meth>(is_defined0, %d, \"meth\") + "
               "check<meth2>(is_defined1, %d, \"meth2\");" % (
                   ndef[0], ndef[1]))
    out.append("    if (!failures) std::printf(\"PASS\\n\");")
    out.append("    return failures != 0;")
    out.append("}")
    return "\n".join(out), 2 * len(all_combos), ndef[0] + ndef[1]


def emit_program(case):
    if case["style"] == "shared_fn_two_methods":
        return emit_two_methods(case)
    lens = case["lens"]
    arity = len(lens)
    nmax = max(lens)
    rng = random.Random(case["subset_seed"])
    all_combos = combos(lens)
    not_def = [c for c in all_combos if rng.random() < case["p_not_defined"]]
    nd_set = set(tuple(c) for c in not_def)
    defined = [c for c in all_combos if tuple(c) not in nd_set]
    out = []
    out.append("#include <yorel/yomm2/core.hpp>")
    out.append("#include <yorel/yomm2/symbols.hpp>")
    out.append("#include <yorel/yomm2/templates.hpp>")
    out.append("#include <cstdio>")
    out.append("#include <set>")
    out.append("using namespace yorel::yomm2;")
    out.append("namespace mp = boost::mp11;")
    out.append("struct Root { virtual ~Root() {} };")
    out.append("template<int I> struct K : Root { static constexpr int "
               "index = I; };")
    out.append("using pol = default_policy;")
    cls = ", ".join("K<%d>" % i for i in range(nmax))
    out.append("use_classes<Root, %s> YOMM2_GENSYM;" % cls)
    out.append("struct YOMM2_SYMBOL(meth);")
    params = ", ".join(["virtual_<Root&>"] * arity)
    out.append("using meth = method<YOMM2_SYMBOL(meth), int(%s)>;" % params)
    targs = ", ".join("typename T%d" % i for i in range(arity))
    tnames = ", ".join("T%d" % i for i in range(arity))
    fparams = ", ".join("T%d&" % i for i in range(arity))
    codeexpr = "0"
    for i in range(arity):
        codeexpr = "(%s) * 1000 + T%d::index + 1" % (codeexpr, i)
    if case["style"] in ("traits", "traits_private"):
        # per-position traits: a combination is marked not_defined when any of
        # its classes is unsupported at its position -- through one base, or
        # through several (an ambiguous base is still a base), or privately
        rng2 = random.Random(case["subset_seed"] + 7)
        unsupported = [set(i for i in range(n)
                           if rng2.random() < min(case["p_not_defined"], 0.5))
                       for n in lens]
        not_def = [c for c in all_combos
                   if any(c[p] in unsupported[p] for p in range(arity))]
        nd_set = set(tuple(c) for c in not_def)
        defined = [c for c in all_combos if tuple(c) not in nd_set]
        out.append("template<int Pos, typename T> struct supported {};")
        for p in range(arity):
            for i in sorted(unsupported[p]):
                out.append("template<> struct supported<%d, K<%d>> : "
                           "not_defined {};" % (p, i))
        access = "private " if case["style"] == "traits_private" else ""
        bases = ", ".join("%ssupported<%d, T%d>" % (access, p, p)
                          for p in range(arity))
        kw = "class" if case["style"] == "traits_private" else "struct"
        out.append("template<typename M, %s> %s definition : %s { public: "
                   "static int fn(%s) { return %s; } };" % (
                       targs, kw, bases, fparams, codeexpr))
    elif case["style"] == "default_defined":
        out.append("template<typename M, %s> struct definition { static int "
                   "fn(%s) { return %s; } };" % (targs, fparams, codeexpr))
        for c in not_def:
            out.append("template<> struct definition<meth, %s> : not_defined "
                       "{};" % ", ".join("K<%d>" % i for i in c))
    else:
        out.append("template<typename M, typename...> struct definition : "
                   "not_defined {};")
        for c in defined:
            ks = ", ".join("K<%d>" % i for i in c)
            out.append("template<> struct definition<meth, %s> { static int "
                       "fn(%s) { return %d; } };" % (
                           ks, ", ".join("K<%d>&" % i for i in c),
                           code_of(c)))
    lists = ", ".join("types<%s>" % ", ".join("K<%d>" % i for i in range(n))
                      for n in lens)
    out.append("using the_product = product<types<meth>, %s>;" % lists)
    out.append("static_assert(mp::mp_size<the_product>::value == %d, "
               "\"product size\");" % len(all_combos))
    # order: the whole list when small, sampled positions otherwise
    if len(all_combos) <= 12:
        exp = ", ".join("types<meth, %s>" % ", ".join("K<%d>" % i for i in c)
                        for c in all_combos)
        out.append("static_assert(std::is_same_v<the_product, types<%s>>, "
                   "\"product order\");" % exp)
    else:
        prng = random.Random(case["subset_seed"] + 1)
        for pos in sorted(set([0, len(all_combos) - 1, 511 % len(all_combos),
                               512 % len(all_combos)] +
                              [prng.randrange(len(all_combos))
                               for _ in range(8)])):
            c = all_combos[pos]
            out.append("static_assert(std::is_same_v<mp::mp_at_c<the_product, "
                       "%d>, types<meth, %s>>, \"product order\");" % (
                           pos, ", ".join("K<%d>" % i for i in c)))
    # apply_product / transform_product on small lists: the whole result,
    # in order (templates outermost, rightmost list fastest)
    srng = random.Random(case["subset_seed"] + 3)
    small = [srng.randint(1, 3) for _ in range(srng.choice([1, 2, 2, 3]))]
    # the elements of a list are arbitrary types: classes, fundamental and
    # compound types, instantiations of templates, template_<> wrappers and
    # type lists themselves (an element that is a list stays one element)
    def element(d, i):
        k = "K<%d>" % (i + 40 * d)
        if not case.get("element_kinds"):
            return k
        return srng.choice([
            k, k, "const %s&" % k, "%s*" % k, "int", "void",
            "types<%s, int>" % k, "types<%s>" % k, "types<>",
            "types<types<%s>, types<>>" % k, "TB<%s, TA<>>" % k,
            "template_<TA>", "std::pair<%s, types<int, char>>" % k,
            "types<int>(*)(types<%s>)" % k])
    selems = [[element(d, i) for i in range(n)] for d, n in enumerate(small)]
    slists = ", ".join("types<%s>" % ", ".join(e) for e in selems)
    scombos = [", ".join(selems[d][i] for d, i in enumerate(c))
               for c in combos(small)]
    out.append("template<typename...> struct TA; template<typename...> "
               "struct TB;")
    out.append("static_assert(std::is_same_v<apply_product<templates<TA, TB>, "
               "%s>, types<%s>>, \"apply_product\");" % (
                   slists, ", ".join(["TA<%s>" % c for c in scombos] +
                                     ["TB<%s>" % c for c in scombos])))
    out.append("template<typename... T> using both = types<TA<T...>, "
               "TB<T...>>;")
    out.append("static_assert(std::is_same_v<transform_product<both, %s>, "
               "types<%s>>, \"transform_product\");" % (
                   slists, ", ".join("TA<%s>, TB<%s>" % (c, c)
                                     for c in scombos)))
    out.append("static_assert(std::is_same_v<product<%s>, types<%s>>, "
               "\"product\");" % (
                   slists, ", ".join("types<%s>" % c for c in scombos)))
    # a second, tiny method whose definition template takes, besides the
    # class, a *list* of tags as one template argument: the product's last
    # list holds type lists as elements
    n2 = 0
    if case.get("element_kinds"):
        tagl = [["int", "char"], [], ["K<0>"], ["types<int>", "long"]]
        srng.shuffle(tagl)
        tagl = tagl[:srng.randint(1, 3)]
        ncls2 = min(nmax, srng.randint(1, 3))
        defined2 = [(i, t) for i in range(ncls2) for t in range(len(tagl))
                    if srng.random() < 0.7]
        out.append("struct YOMM2_SYMBOL(meth2);")
        out.append("using meth2 = method<YOMM2_SYMBOL(meth2), int("
                   "virtual_<Root&>)>;")
        out.append("template<typename M, typename...> struct definition2 : "
                   "not_defined {};")
        seen = set()
        for i, t in defined2:
            if i in seen:
                continue   # one class, one definition (no duplicates)
            seen.add(i)
            out.append("template<> struct definition2<meth2, K<%d>, "
                       "types<%s>> { static int fn(K<%d>&) { return %d; } };"
                       % (i, ", ".join(tagl[t]), i, 7000 + 10 * i + t))
        defined2 = [(i, t) for k, (i, t) in enumerate(defined2)
                    if (i, t) == next(x for x in defined2 if x[0] == i)]
        out.append("using product2 = product<types<meth2>, types<%s>, "
                   "types<%s>>;" % (
                       ", ".join("K<%d>" % i for i in range(ncls2)),
                       ", ".join("types<%s>" % ", ".join(t) for t in tagl)))
        out.append("static_assert(mp::mp_size<product2>::value == %d, "
                   "\"product of lists holding lists\");"
                   % (ncls2 * len(tagl)))
        out.append("use_definitions<definition2, product2> YOMM2_GENSYM;")
        n2 = ncls2
        case["_m2"] = (ncls2, [(i, 7000 + 10 * i + t) for i, t in defined2])
    out.append("use_definitions<definition, the_product> YOMM2_GENSYM;")
    out.append("struct NotImplemented {};")
    # expected table
    out.append("static const bool is_defined[] = {%s};" % ", ".join(
        "0" if tuple(c) in nd_set else "1" for c in all_combos))
    out.append("int main() {")
    out.append("    pol::error = [](const error_type& e) { if (auto r = "
               "std::get_if<resolution_error>(&e)) { if (r->status == "
               "resolution_error::no_definition) throw NotImplemented(); } "
               "throw 1; };")
    out.append("    update();")
    out.append("    int failures = 0;")
    out.append("    std::size_t registered = meth::fn.specs.size();")
    out.append("    if (registered != %d) { std::printf(\"FAIL the catalog "
               "holds %%zu definitions, %d combinations are defined\\n\", "
               "registered); ++failures; }" % (len(defined), len(defined)))
    out.append("    Root* objs[%d];" % nmax)
    for i in range(nmax):
        out.append("    K<%d> k%d; objs[%d] = &k%d;" % (i, i, i, i))
    out.append("    static const int lens[] = {%s};" % ", ".join(
        str(n) for n in lens))
    out.append("    int idx[%d] = {};" % arity)
    out.append("    for (int n = 0; n < %d; ++n) {" % len(all_combos))
    out.append("        int rem = n; for (int d = %d; d >= 0; --d) { idx[d] = "
               "rem %% lens[d]; rem /= lens[d]; }" % (arity - 1))
    out.append("        long code = 0; for (int d = 0; d < %d; ++d) code = "
               "code * 1000 + idx[d] + 1;" % arity)
    call = ", ".join("*objs[idx[%d]]" % d for d in range(arity))
    out.append("        int got = 0; bool ni = false;")
    out.append("        try { got = meth::fn(%s); } catch (NotImplemented&) "
               "{ ni = true; } catch (int) { ni = false; got = -2; }" % call)
    out.append("        if (is_defined[n] ? (ni || got != code) : !ni) {")
    out.append("            if (failures < 3) std::printf(\"FAIL combination "
               "#%d: %s\\n\", n, is_defined[n] ? (ni ? \"defined but not "
               "registered\" : \"another definition ran\") : \"marked "
               "not_defined but a definition ran\");")
    out.append("            ++failures;")
    out.append("        }")
    out.append("    }")
    if case.get("_m2"):
        ncls2, defs2 = case.pop("_m2")
        exp = dict(defs2)
        out.append("    if (meth2::fn.specs.size() != %d) { std::printf("
                   "\"FAIL meth2: the catalog holds %%zu definitions, %d "
                   "combinations (class x tag list) are defined\\n\", "
                   "meth2::fn.specs.size()); ++failures; }"
                   % (len(exp), len(exp)))
        for i in range(ncls2):
            out.append("    { int got = 0; bool ni = false; try { got = "
                       "meth2::fn(*objs[%d]); } catch (NotImplemented&) { ni "
                       "= true; } catch (int) { got = -2; }" % i)
            if i in exp:
                out.append("      if (ni || got != %d) { std::printf(\"FAIL "
                           "meth2(K<%d>): the definition for (class, tag "
                           "list) did not run\\n\"); ++failures; } }"
                           % (exp[i], i))
            else:
                out.append("      if (!ni) { std::printf(\"FAIL meth2(K<%d>)"
                           ": a definition ran, none is defined\\n\"); "
                           "++failures; } }" % i)
    out.append("    if (!failures) std::printf(\"PASS\\n\");")
    out.append("    return failures != 0;")
    out.append("}")
    return "\n".join(out), len(all_combos), len(defined)


def run_case(args):
    case, workdir, name, inc = args
    os.makedirs(workdir, exist_ok=True)
    src = os.path.join(workdir, name + ".cpp")
    exe = os.path.join(workdir, name)
    text, ncombos, ndefined = emit_program(case)
    with open(src, "w") as f:
        f.write(text)
    p = subprocess.run(["clang++", "-std=c++17", "-g0", "-O0", "-I" + inc,
                        "-fbracket-depth=2048", "-ftemplate-depth=4096",
                        src, "-o", exe], capture_output=True, text=True)
    status, msg = "PASS", ""
    if p.returncode != 0:
        status = "FAIL"
        err = [l for l in p.stderr.splitlines() if "error:" in l]
        msg = "compile: " + (err[0].split("error:", 1)[1].strip()[:300]
                             if err else p.stderr[-300:])
    else:
        r = subprocess.run([exe], capture_output=True, text=True)
        lines = r.stdout.splitlines()
        if r.returncode != 0 or "PASS" not in lines:
            status = "FAIL"
            fl = [l for l in lines if l.startswith("FAIL")]
            msg = ("registration: " + fl[0][5:]) if fl else \
                "crash: exit %d %s" % (r.returncode, r.stderr[-200:])
    for f in (src, exe):
        try:
            os.remove(f)
        except OSError:
            pass
    return status, msg, ncombos, ndefined


def _hash(case):
    return int.from_bytes(hashlib.sha256(case_key(case).encode()).digest()[:8],
                          "little")


def check(tier, seed, scratch, inc, ncpu, pool_map):
    n = 10 if tier == "quick" else 48
    rng = random.Random(seed * 104729 + (1 if tier == "quick" else 2))
    cases = [gen_case(rng, tier) for _ in range(n)]
    if tier == "quick":
        # always one product just above the 512 split
        # more than 512 *defined* combinations (the split of `aggregate`),
        # an odd and a pseudo-random count
        cases[0] = dict(cases[0], lens=[23, 23], p_not_defined=0.0)
        cases[3] = dict(cases[3], lens=[24, 24], p_not_defined=0.1)
        cases[1] = dict(cases[1], lens=[8, 8, 8], p_not_defined=0.5,
                        style="default_not_defined")
        cases[2] = dict(cases[2], lens=[5, 7], p_not_defined=0.5)
        cases[4] = dict(cases[4], lens=[4, 4], p_not_defined=0.5,
                        style="traits")
        cases[5] = dict(cases[5], lens=[3, 3, 3], p_not_defined=0.5,
                        style="traits_private")
        cases[6] = dict(cases[6], lens=[4, 5], p_not_defined=0.5,
                        style="shared_fn_two_methods")
    results = pool_map(run_case, [(c, scratch, "c20_%d" % i, inc)
                                  for i, c in enumerate(cases)])
    res = dict(evaluations=0, nontrivial=0, inconclusive=0, classes={},
               excluded={}, samples=[], failures=[], hashes=set())
    for case, (status, msg, ncombos, ndefined) in zip(cases, results):
        res["evaluations"] += 1
        label = "product>512" if ncombos > 512 else "product<=512"
        res["classes"][label] = res["classes"].get(label, 0) + 1
        if ndefined > 512:
            res["classes"]["defined>512 (aggregate split)"] = \
                res["classes"].get("defined>512 (aggregate split)", 0) + 1
        res["classes"]["lists=%d" % len(case["lens"])] = \
            res["classes"].get("lists=%d" % len(case["lens"]), 0) + 1
        res["classes"]["combinations_checked"] = \
            res["classes"].get("combinations_checked", 0) + ncombos
        # non-trivial: some combination defined and some not, or a product
        # beyond the split
        if 0 < ndefined < ncombos or ncombos > 512:
            res["nontrivial"] += 1
            res["hashes"].add(_hash(case))
            if len(res["samples"]) < 3:
                res["samples"].append(case)
        if status != "PASS":
            res["failures"].append({"property": "C20", "engine": "c20",
                                    "case": case, "message": msg})
    return res


def replay(case, scratch, inc):
    status, msg, _, _ = run_case((case, scratch,
                                  "c20_replay_%d" % os.getpid(), inc))
    return status, msg


def shrinks(case):
    out = []
    lens = case["lens"]
    for i, n in enumerate(lens):
        if n > 1:
            for m in (1, n // 2, n - 1):
                if 1 <= m < n:
                    out.append(dict(case, lens=lens[:i] + [m] + lens[i + 1:]))
    if len(lens) > 2:
        out.append(dict(case, lens=lens[:-1]))
    if case["style"] not in ("default_defined", "traits", "traits_private"):
        out.append(dict(case, style="default_defined"))
    return out
