"""Engine E3, property C02: error reports of unresolvable calls, in programs
written against the public API.

A case: a small DAG of real classes, one method of arity 1..3 with optional
non-virtual parameters between the virtual ones, virtual parameters of the
kinds T&, T*, shared_ptr<T>, virtual_ptr<T>, and few definitions, so that
many tuples have no applicable definition or an ambiguous set.  The error is
observed through each of the routes the library offers:

  policy_error      default_policy::error = a throwing std::function
  set_error_handler the free function (which must return the previous one)
  call_error        the deprecated set_method_call_error_handler route
  throw_error       a policy whose error_handler facet is throw_error

and the program is compiled with or without NDEBUG (release / debug default
policy).  For every tuple of dynamic classes the program checks, against the
reference model: resolvable => the model's definition runs; otherwise no body
runs, the handler is entered exactly once, the status is the model's, arity =
number of virtual parameters, types = &typeid(dynamic class) of the virtual
arguments in order (non-virtual arguments leave no trace), and a resolvable
call made right after still dispatches correctly.  One unresolvable tuple is
also called in a forked child whose handler returns: the child must die of
SIGABRT.
"""
import hashlib
import json
import os
import random
import subprocess

from proggen.c03 import ancestors_of, has_diamond, select

KINDS = ["ref", "ref", "ptr", "sp", "vp"]
STYLES = ["policy_error", "set_error_handler", "call_error", "throw_error"]


def gen_case(rng):
    n = rng.randint(2, 7)
    bases = [[]]
    for c in range(1, n):
        k = rng.choice([1, 1, 1, 2, 2, 0])
        bases.append(sorted(set(rng.randrange(c) for _ in range(k))))
    arity = rng.choice([1, 2, 2, 3])
    vp = [0 if rng.random() < 0.6 else rng.randrange(n) for _ in range(arity)]
    anc = ancestors_of(n, bases)
    defs, seen = [], set()
    for _ in range(rng.randint(0, 4)):
        t = tuple(rng.choice([c for c in range(n) if p in anc[c]])
                  for p in vp)
        if t not in seen:
            seen.add(t)
            defs.append(list(t))
    # non-virtual parameters: 'i' int, 's' std::string, per gap
    shape = []
    for i in range(arity):
        if rng.random() < 0.35:
            shape.append(rng.choice("is"))
        shape.append("V")
    if rng.random() < 0.3:
        shape.append(rng.choice("is"))
    style = rng.choice(STYLES)
    return {"n": n, "bases": bases, "vp": vp, "defs": defs,
            "kinds": [rng.choice(KINDS) for _ in range(arity)],
            "shape": "".join(shape), "style": style,
            "ndebug": rng.random() < 0.5,
            "reg_order": rng.sample(range(n), n)}


def case_key(case):
    return json.dumps(case, sort_keys=True)


def expected(case):
    anc = ancestors_of(case["n"], case["bases"])
    n = case["n"]
    doms = [[c for c in range(n) if p in anc[c]] for p in case["vp"]]
    tuples = [[]]
    for dom in doms:
        tuples = [t + [c] for t in tuples for c in dom]
    tuples = tuples[:150]
    out = []
    for t in tuples:
        app = [d for d, dc in enumerate(case["defs"])
               if all(dc[i] in anc[t[i]] for i in range(len(t)))]
        out.append(select(case, anc, app))
    return out, tuples


def emit(case):
    n = case["n"]
    virt = "virtual " if has_diamond(case) else ""
    style = case["style"]
    out = ["#include <yorel/yomm2/keywords.hpp>", "#include <cstdio>",
           "#include <cstdlib>", "#include <memory>", "#include <string>",
           "#include <csignal>", "#include <unistd.h>",
           "#include <sys/wait.h>", "using namespace yorel::yomm2;"]
    if style == "throw_error":
        out.append("struct pol : default_policy::rebind<pol>::replace<"
                   "policy::error_handler, policy::throw_error> {};")
    else:
        out.append("using pol = default_policy;")
    for c in range(n):
        bs = case["bases"][c]
        inh = (" : " + ", ".join("%sK%d" % (virt, b) for b in bs)) if bs \
            else ""
        out.append("struct K%d%s { virtual ~K%d() {} long pad%d = %d; };" % (
            c, inh, c, c, c))
        out.append("using VP%d = virtual_ptr<K%d, pol>;" % (c, c))
    out.append("register_classes(%s, pol);" % ", ".join(
        "K%d" % c for c in case["reg_order"]))

    def decl(kind, p):
        return {"ref": "virtual_<K%d&>", "ptr": "virtual_<K%d*>",
                "sp": "virtual_<std::shared_ptr<K%d>>", "vp": "VP%d"}[kind] % p

    def param(kind, c, k):
        return {"ref": "K%d& a%d", "ptr": "K%d* a%d",
                "sp": "std::shared_ptr<K%d> a%d", "vp": "VP%d a%d"}[kind] % (
                    c, k)

    def arg(kind, p, c):
        return {"ref": "static_cast<K%d&>(*s%d)",
                "ptr": "static_cast<K%d*>(s%d.get())",
                "sp": "std::shared_ptr<K%d>(s%d)",
                "vp": "VP%d(static_cast<K%d&>(*s%d))"}[kind] % (
                    (p, p, c) if kind == "vp" else (p, c))

    NV = {"i": ("int", "42"), "s": ("std::string", "std::string(\"text\")")}
    params, k = [], 0
    for ch in case["shape"]:
        if ch == "V":
            params.append(decl(case["kinds"][k], case["vp"][k]))
            k += 1
        else:
            params.append(NV[ch][0])
    out.append("declare_method(int, m, (%s), pol);" % ", ".join(params))
    out.append("static int g_bodies = 0;")
    for d, t in enumerate(case["defs"]):
        ps, k = [], 0
        for j, ch in enumerate(case["shape"]):
            if ch == "V":
                ps.append(param(case["kinds"][k], t[k], k))
                k += 1
            else:
                ps.append("%s nv%d" % (NV[ch][0], j))
        out.append("define_method(int, m, (%s)) { ++g_bodies; return %d; }" % (
            ", ".join(ps), d))
    exp, tuples = expected(case)
    arity = len(case["vp"])
    out.append("struct Seen { int status; std::size_t arity; type_id "
               "types[16]; std::string name; };")
    out.append("static int g_deliveries = 0;")
    # handler installation
    out.append("static void thrower(const error_type& e) { ++g_deliveries; "
               "if (auto r = std::get_if<resolution_error>(&e)) { Seen s{"
               "int(r->status), r->arity, {}, std::string(r->method_name)}; "
               "for (std::size_t i = 0; i < r->arity && i < 16; ++i) "
               "s.types[i] = r->types[i]; throw s; } std::printf(\"ERROR "
               "unexpected error kind\\n\"); std::fflush(stdout); "
               "std::_Exit(3); }")
    out.append("static void old_thrower(const method_call_error& e, "
               "std::size_t arity, type_id* ids) { ++g_deliveries; Seen s{"
               "int(e.code), arity, {}, std::string(e.method_name)}; for ("
               "std::size_t i = 0; i < arity && i < 16; ++i) s.types[i] = "
               "ids[i]; throw s; }")
    out.append("static void returner(const error_type&) {}")
    out.append("static void old_returner(const method_call_error&, "
               "std::size_t, type_id*) {}")
    out.append("static void sigabrt(int) { _exit(42); }")
    out.append("static type_id ids[] = {%s};" % ", ".join(
        "reinterpret_cast<type_id>(&typeid(K%d))" % c for c in range(n)))
    out.append("static std::string g_name;")
    # one checked call; returns a token
    out.append("template<class F> static std::string probe(F call, const int* "
               "dyn, int want) {")
    out.append("    g_bodies = 0; g_deliveries = 0;")
    out.append("    try {")
    out.append("        int r = call();")
    out.append("        if (g_bodies != 1 || g_deliveries != 0) return "
               "\"?bodies\";")
    out.append("        return std::to_string(r);")
    if style == "throw_error":
        out.append("    } catch (const resolution_error& r) {")
        out.append("        Seen s{int(r.status), r.arity, {}, std::string("
                   "r.method_name)}; for (std::size_t i = 0; i < r.arity && "
                   "i < 16; ++i) s.types[i] = r.types[i];")
        out.append("        g_deliveries = 1;")
    else:
        out.append("    } catch (const Seen& s) {")
    out.append("        if (g_bodies != 0) return \"?a-body-ran\";")
    out.append("        if (g_deliveries != 1) return \"?deliveries\";")
    out.append("        if (s.arity != %d) return \"?arity=\" + "
               "std::to_string(s.arity);" % arity)
    out.append("        for (int i = 0; i < %d; ++i) if (s.types[i] != "
               "ids[dyn[i]]) return \"?types[\" + std::to_string(i) + \"]\";"
               % arity)
    out.append("        if (s.name.empty() || (!g_name.empty() && s.name != "
               "g_name)) return \"?method-name\";")
    out.append("        g_name = s.name;")
    out.append("        (void)want;")
    out.append("        return s.status == resolution_error::ambiguous ? "
               "\"A\" : s.status == resolution_error::no_definition ? \"N\" "
               ": \"?status\";")
    out.append("    }")
    out.append("}")
    out.append("int main() {")
    if style == "policy_error":
        out.append("    pol::error = thrower;")
    elif style == "set_error_handler":
        out.append("    auto prev = set_error_handler(thrower);")
        out.append("    auto mine = set_error_handler(thrower);")
        out.append("    if (!prev || !mine) { std::printf(\"ERROR "
                   "set_error_handler does not return the previous handler"
                   "\\n\"); return 3; }")
    elif style == "call_error":
        out.append("    auto prev = set_method_call_error_handler("
                   "old_thrower);")
        out.append("    if (!prev || set_method_call_error_handler("
                   "old_thrower) != old_thrower) { std::printf(\"ERROR "
                   "set_method_call_error_handler does not return the "
                   "previous handler\\n\"); return 3; }")
    out.append("    update<pol>();")
    for c in range(n):
        out.append("    auto s%d = std::make_shared<K%d>();" % (c, c))
    out.append("    std::string r;")
    first_bad = None
    first_good = None
    calls = []
    for t, e in zip(tuples, exp):
        args, k = [], 0
        for ch in case["shape"]:
            if ch == "V":
                args.append(arg(case["kinds"][k], case["vp"][k], t[k]))
                k += 1
            else:
                args.append(NV[ch][1])
        calls.append("m(%s)" % ", ".join(args))
        if first_bad is None and not isinstance(e, int):
            first_bad = len(calls) - 1
        if first_good is None and isinstance(e, int):
            first_good = len(calls) - 1
    for i, (t, e) in enumerate(zip(tuples, exp)):
        out.append("    { static const int dyn[] = {%s}; r += probe([&] { "
                   "return %s; }, dyn, 0); r += ' '; }" % (
                       ", ".join(str(c) for c in t), calls[i]))
        if not isinstance(e, int) and first_good is not None:
            # after an error, a resolvable call still works
            tg = tuples[first_good]
            out.append("    { static const int dyn[] = {%s}; if (probe([&] { "
                       "return %s; }, dyn, 0) != \"%d\") r += "
                       "\"?aftermath \"; }" % (
                           ", ".join(str(c) for c in tg), calls[first_good],
                           exp[first_good]))
    out.append("    if (!r.empty()) r.pop_back();")
    out.append("    std::printf(\"R %s\\n\", r.c_str());")
    if first_bad is not None and style != "throw_error":
        out.append("    std::fflush(stdout);")
        out.append("    pid_t pid = fork();")
        out.append("    if (pid == 0) {")
        out.append("        std::signal(SIGABRT, sigabrt);")
        out.append("        if (std::freopen(\"/dev/null\", \"w\", stderr)) {}")
        if style == "call_error":
            out.append("        set_method_call_error_handler(old_returner);")
        else:
            out.append("        pol::error = returner;")
        out.append("        g_bodies = 0;")
        out.append("        try { %s; } catch (...) { _exit(44); }" %
                   calls[first_bad])
        out.append("        _exit(g_bodies ? 46 : 45);")
        out.append("    }")
        out.append("    int status = 0; waitpid(pid, &status, 0);")
        out.append("    int code = WIFEXITED(status) ? WEXITSTATUS(status) : "
                   "-1;")
        out.append("    std::printf(\"C %d\\n\", code);")
    else:
        out.append("    std::printf(\"C 42\\n\");")
    out.append("    std::fflush(stdout);")
    out.append("    std::_Exit(0);")
    out.append("}")
    want = " ".join(str(e) for e in exp)
    return "\n".join(out), want


def run_case(args):
    case, workdir, name, inc = args
    os.makedirs(workdir, exist_ok=True)
    src = os.path.join(workdir, name + ".cpp")
    exe = os.path.join(workdir, name)
    text, want = emit(case)
    with open(src, "w") as f:
        f.write(text)
    flags = ["-DNDEBUG"] if case["ndebug"] else []
    p = subprocess.run(["clang++", "-std=c++17", "-g0", "-O1", "-w",
                        "-Wno-deprecated-declarations",
                        "-fsanitize=address,undefined",
                        "-fno-sanitize-recover=undefined", "-I" + inc] +
                       flags + [src, "-o", exe],
                       capture_output=True, text=True)
    status, msg = "PASS", ""
    if p.returncode != 0:
        err = [l for l in p.stderr.splitlines() if "error" in l]
        status, msg = "FAIL", "compile: " + (
            err[0][:300] if err else p.stderr[-300:])
    else:
        env = dict(os.environ, ASAN_OPTIONS="detect_leaks=0")
        r = subprocess.run([exe], capture_output=True, text=True, env=env)
        lines = r.stdout.splitlines()
        rl = [l for l in lines if l.startswith("R ") or l == "R"]
        cl = [l for l in lines if l.startswith("C ")]
        if r.returncode != 0 or not rl or not cl:
            status, msg = "FAIL", "crash: exit %d %s %s" % (
                r.returncode, r.stdout[-200:], r.stderr[-300:])
        else:
            got = rl[0][2:]
            if got != want:
                status = "FAIL"
                bad = [g for g in got.split(" ") if g.startswith("?")]
                msg = "error-report%s: the calls give '%s', the model says " \
                      "'%s'" % ("-" + bad[0][1:] if bad else "", got[:200],
                                want[:200])
            elif cl[0] != "C 42":
                status = "FAIL"
                msg = "error-no-abort: the handler returned and the child " \
                      "ended with '%s' instead of aborting (45 = the call " \
                      "returned, 46 = a body ran)" % cl[0]
    for f in (src, exe):
        try:
            os.remove(f)
        except OSError:
            pass
    n_err = sum(1 for e in want.split(" ") if e in ("N", "A"))
    return status, msg, n_err


def _hash(case):
    return int.from_bytes(hashlib.sha256(case_key(case).encode()).digest()[:8],
                          "little")


def check(tier, seed, scratch, inc, ncpu, pool_map, prop="C02"):
    n = 12 if tier == "quick" else 160
    rng = random.Random(seed * 32452843 + (1 if tier == "quick" else 2))
    cases = [gen_case(rng) for _ in range(n)]
    results = pool_map(run_case, [(c, scratch, "c02_%d" % i, inc)
                                  for i, c in enumerate(cases)])
    res = dict(evaluations=0, nontrivial=0, inconclusive=0, classes={},
               excluded={}, samples=[], failures=[], hashes=set())
    for case, (status, msg, n_err) in zip(cases, results):
        res["evaluations"] += 1
        labels = ["error_program", "error_program_" + case["style"],
                  "error_program_" + ("release" if case["ndebug"] else
                                      "debug")]
        nv = any(ch != "V" for ch in case["shape"])
        if nv:
            labels.append("error_program_nonvirtual_parameter")
        for label in labels:
            res["classes"][label] = res["classes"].get(label, 0) + 1
        if n_err and (nv or len(case["vp"]) >= 2):
            res["nontrivial"] += 1
            res["hashes"].add(_hash(case))
            if len(res["samples"]) < 1:
                res["samples"].append(case)
        if status != "PASS":
            res["failures"].append({"property": prop, "engine": "c02",
                                    "case": case, "message": msg})
    return res


def replay(case, scratch, inc):
    status, msg, _ = run_case((case, scratch, "c02_replay_%d" % os.getpid(),
                               inc))
    return status, msg


def shrinks(case):
    out = []
    for d in range(len(case["defs"])):
        c = json.loads(json.dumps(case))
        del c["defs"][d]
        out.append(c)
    if any(ch != "V" for ch in case["shape"]):
        out.append(dict(case, shape="V" * len(case["vp"])))
    for i, k in enumerate(case["kinds"]):
        if k != "ref":
            c = json.loads(json.dumps(case))
            c["kinds"][i] = "ref"
            out.append(c)
    if case["style"] != "policy_error":
        out.append(dict(case, style="policy_error"))
    return out
