"""Engine E3, property C10: one registry of real C++ classes under three RTTI
flavours in the same program.

A case: a small class DAG, one method of arity 1 or 2 whose virtual
parameters are drawn from the kinds the library accepts (T&, const T&, T*,
const T*, shared_ptr<T>, const shared_ptr<T>&, virtual_ptr<T>), and a few
definitions.  The same text is emitted three times, once per policy:

  std   standard RTTI (typeid)
  ptr   pointer ids: the address of a per-type static (policy::minimal_rtti,
        which gives `const T` another id than `T`); the dynamic id is read
        from a field of the object
  int   small integer ids that are only assigned during static
        initialisation *after* the registrations ran
        (policy::deferred_static_rtti), used without a type hash

All three must dispatch every tuple of dynamic classes to the definition the
reference model selects (or report the same error), before and after a second
update.
"""
import hashlib
import json
import os
import random
import subprocess

from proggen.c03 import ancestors_of, has_diamond, select

KINDS = ["ref", "cref", "ptr", "cptr", "sp", "csp", "vp", "spc", "cvp"]


def gen_case(rng):
    n = rng.randint(2, 7)
    bases = [[]]
    for c in range(1, n):
        k = rng.choice([1, 1, 1, 2, 2, 0])
        bases.append(sorted(set(rng.randrange(c) for _ in range(k))))
    arity = rng.choice([1, 1, 2])
    vp = [0 if rng.random() < 0.7 else rng.randrange(n) for _ in range(arity)]
    kinds = [rng.choice(KINDS) for _ in range(arity)]
    anc = ancestors_of(n, bases)
    defs = []
    seen = set()
    for _ in range(rng.randint(1, 6)):
        t = tuple(rng.choice([c for c in range(n) if p in anc[c]])
                  for p in vp)
        if t not in seen:
            seen.add(t)
            defs.append(list(t))
    ids = rng.sample(range(1, 3 * n), n)
    return {"n": n, "bases": bases, "vp": vp, "kinds": kinds, "defs": defs,
            "base_policy": rng.choice(["debug", "release"]),
            "extra_int": rng.random() < 0.3,
            "int_ids": ids,
            # the order in which register_classes lists the classes is free
            "reg_order": rng.sample(range(n), n)}


def case_key(case):
    return json.dumps(case, sort_keys=True)


def expected(case):
    anc = ancestors_of(case["n"], case["bases"])
    n = case["n"]
    doms = [[c for c in range(n) if p in anc[c]] for p in case["vp"]]
    tuples = [[]]
    for dom in doms:
        tuples = [t + [c] for t in tuples for c in dom]
    out = []
    for t in tuples:
        app = [d for d, dc in enumerate(case["defs"])
               if all(dc[i] in anc[t[i]] for i in range(len(t)))]
        out.append(str(select(case, anc, app)))
    return " ".join(out), tuples


PRELUDE = r"""
#include <yorel/yomm2/keywords.hpp>
#include <cstdio>
#include <memory>
#include <string>
using namespace yorel::yomm2;

struct IdBase { type_id ptr_id = 0, int_id = 0; };
#define IDCTOR(K) static type_id static_id; K() { \
    this->ptr_id = policy::minimal_rtti::static_type<K>(); \
    this->int_id = K::static_id; }

struct ptr_rtti : policy::minimal_rtti {
    template<typename T> static type_id dynamic_type(const T& obj) {
        if constexpr (std::is_base_of_v<IdBase, T>) {
            return static_cast<const IdBase&>(obj).ptr_id;
        } else {
            return static_type<T>();
        }
    }
    template<typename D, typename B> static D dynamic_cast_ref(B&& obj) {
        return dynamic_cast<D>(obj);
    }
};

struct int_rtti : policy::deferred_static_rtti {
    template<typename T> static type_id static_type() {
        if constexpr (std::is_base_of_v<IdBase, T>) {
            return T::static_id;
        } else {
            static char id;
            return type_id(&id);
        }
    }
    template<typename T> static type_id dynamic_type(const T& obj) {
        if constexpr (std::is_base_of_v<IdBase, T>) {
            return static_cast<const IdBase&>(obj).int_id;
        } else {
            return static_type<T>();
        }
    }
    template<typename D, typename B> static D dynamic_cast_ref(B&& obj) {
        return dynamic_cast<D>(obj);
    }
};
"""


def emit(case):
    n = case["n"]
    virt = "virtual " if has_diamond(case) else ""
    base = "policy::" + case["base_policy"]
    out = [PRELUDE]
    out.append("struct std_pol : %s::rebind<std_pol> {};" % base)
    out.append("struct ptr_pol : %s::rebind<ptr_pol>::replace<policy::rtti, "
               "ptr_rtti> {};" % base)
    out.append("struct int_pol : %s::rebind<int_pol>::replace<policy::rtti, "
               "int_rtti>::remove<policy::type_hash> {};" % base)
    for c in range(n):
        bs = case["bases"][c]
        inh = ", ".join("%sK%d" % (virt, b) for b in bs) if bs \
            else "virtual IdBase"
        out.append("struct K%d : %s { IDCTOR(K%d) virtual ~K%d() {} long "
                   "pad%d = %d; };" % (c, inh, c, c, c, c))
    exp, tuples = expected(case)

    def decl(kind, p):
        return {"ref": "virtual_<K%d&>", "cref": "virtual_<const K%d&>",
                "ptr": "virtual_<K%d*>", "cptr": "virtual_<const K%d*>",
                "sp": "virtual_<std::shared_ptr<K%d>>",
                "csp": "virtual_<const std::shared_ptr<K%d>&>",
                "spc": "virtual_<std::shared_ptr<const K%d>>",
                "cvp": "CVP%d", "vp": "VP%d"}[kind] % p

    def param(kind, c, k):
        return {"ref": "K%d& a%d", "cref": "const K%d& a%d",
                "ptr": "K%d* a%d", "cptr": "const K%d* a%d",
                "sp": "std::shared_ptr<K%d> a%d",
                "csp": "const std::shared_ptr<K%d>& a%d",
                "spc": "std::shared_ptr<const K%d> a%d",
                "cvp": "CVP%d a%d", "vp": "VP%d a%d"}[kind] % (c, k)

    def arg(kind, p, c):
        return {"ref": "static_cast<K%d&>(*s%d)",
                "cref": "static_cast<K%d&>(*s%d)",
                "ptr": "static_cast<K%d*>(s%d.get())",
                "cptr": "static_cast<const K%d*>(s%d.get())",
                "sp": "std::shared_ptr<K%d>(s%d)",
                "csp": "std::shared_ptr<K%d>(s%d)",
                "spc": "std::shared_ptr<const K%d>(s%d)",
                "cvp": "CVP%d(static_cast<const K%d&>(*s%d))",
                "vp": "VP%d(static_cast<K%d&>(*s%d))"}[kind] % (
                    (p, p, c) if kind in ("vp", "cvp") else (p, c))

    for flavour in ("std", "ptr", "int"):
        out.append("namespace f_%s {" % flavour)
        out.append("using POL = %s_pol;" % flavour)
        for c in range(n):
            out.append("using VP%d = virtual_ptr<K%d, POL>;" % (c, c))
            out.append("using CVP%d = virtual_ptr<const K%d, POL>;" % (c, c))
        out.append("register_classes(%s, POL);" % ", ".join(
            "K%d" % c for c in case.get("reg_order", range(n))))
        params = [decl(k, p) for k, p in zip(case["kinds"], case["vp"])]
        if case["extra_int"]:
            params.insert(1 if len(params) > 1 else 0, "int")
        out.append("declare_method(int, m, (%s), POL);" % ", ".join(params))
        for d, t in enumerate(case["defs"]):
            ps = [param(kind, c, k) for k, (kind, c) in
                  enumerate(zip(case["kinds"], t))]
            if case["extra_int"]:
                ps.insert(1 if len(ps) > 1 else 0, "int x")
            out.append("define_method(int, m, (%s)) { return %d; }" % (
                ", ".join(ps), d))
        out.append("static std::string record() {")
        out.append("    std::string r;")
        for c in range(n):
            out.append("    static auto s%d = std::make_shared<K%d>();" % (
                c, c))
        for t in tuples:
            args = [arg(kind, p, c) for kind, p, c in
                    zip(case["kinds"], case["vp"], t)]
            if case["extra_int"]:
                args.insert(1 if len(args) > 1 else 0, "7")
            out.append("    try { r += std::to_string(m(%s)); } catch (const "
                       "resolution_error& e) { r += e.status == "
                       "resolution_error::ambiguous ? \"A\" : \"N\"; } r += "
                       "' ';" % ", ".join(args))
        out.append("    if (!r.empty()) r.pop_back();")
        out.append("    return r;")
        out.append("}")
        out.append("static void handler() { POL::error = [](const error_type& "
                   "e) { if (auto r = std::get_if<resolution_error>(&e)) "
                   "throw *r; std::printf(\"ERROR other error in %s\\n\"); "
                   "std::fflush(stdout); std::_Exit(3); }; }" % flavour)
        out.append("}")
    # the integer ids become known only now, after every registration above
    # (dynamically initialised - a volatile read - so that they are not
    # constants already in place when the registrations run)
    out.append("static volatile int g_zero = 0;")
    for c in range(n):
        out.append("type_id K%d::static_id = %d + g_zero;" % (
            c, case["int_ids"][c]))
    out.append("int main() {")
    for f in ("std", "ptr", "int"):
        out.append("    f_%s::handler();" % f)
    for rnd in (1, 2):
        for f in ("std", "ptr", "int"):
            out.append("    update<%s_pol>();" % f)
        for f in ("std", "ptr", "int"):
            out.append("    std::printf(\"%d %s %%s\\n\", f_%s::record()"
                       ".c_str());" % (rnd, f, f))
    out.append("    return 0;")
    out.append("}")
    return "\n".join(out), exp


def run_case(args):
    case, workdir, name, inc = args
    os.makedirs(workdir, exist_ok=True)
    src = os.path.join(workdir, name + ".cpp")
    exe = os.path.join(workdir, name)
    text, exp = emit(case)
    with open(src, "w") as f:
        f.write(text)
    p = subprocess.run(["clang++", "-std=c++17", "-g0", "-O1", "-w",
                        "-fsanitize=address,undefined",
                        "-fno-sanitize-recover=undefined", "-I" + inc, src,
                        "-o", exe], capture_output=True, text=True)
    status, msg = "PASS", ""
    if p.returncode != 0:
        err = [l for l in p.stderr.splitlines() if "error" in l]
        status, msg = "FAIL", "compile: " + (
            err[0][:300] if err else p.stderr[-300:])
    else:
        env = dict(os.environ, ASAN_OPTIONS="detect_leaks=0")
        r = subprocess.run([exe], capture_output=True, text=True, env=env)
        lines = r.stdout.splitlines()
        if r.returncode != 0 or len(lines) < 6:
            status, msg = "FAIL", "crash: exit %d after %d records: %s %s" % (
                r.returncode, len(lines), r.stdout[-200:], r.stderr[-300:])
        else:
            for line in lines[:6]:
                rnd, flavour, got = line.split(" ", 2)
                if got != exp:
                    status = "FAIL"
                    msg = "flavour-%s: after update %s the calls give '%s', " \
                          "the model (and standard RTTI) say '%s'" % (
                              flavour, rnd, got[:200], exp[:200])
                    break
    for f in (src, exe):
        try:
            os.remove(f)
        except OSError:
            pass
    return status, msg


def _hash(case):
    return int.from_bytes(hashlib.sha256(case_key(case).encode()).digest()[:8],
                          "little")


def check(tier, seed, scratch, inc, ncpu, pool_map, prop="C10"):
    n = 10 if tier == "quick" else 120
    rng = random.Random(seed * 86028121 + (1 if tier == "quick" else 2))
    cases = [gen_case(rng) for _ in range(n)]
    results = pool_map(run_case, [(c, scratch, "c10_%d" % i, inc)
                                  for i, c in enumerate(cases)])
    res = dict(evaluations=0, nontrivial=0, inconclusive=0, classes={},
               excluded={}, samples=[], failures=[], hashes=set())
    for case, (status, msg) in zip(cases, results):
        res["evaluations"] += 1
        labels = ["rtti_program"] + ["rtti_program_kind=" + k
                                     for k in set(case["kinds"])]
        if len(case["vp"]) >= 2:
            labels.append("rtti_program_arity2")
        for label in labels:
            res["classes"][label] = res["classes"].get(label, 0) + 1
        res["nontrivial"] += 1
        res["hashes"].add(_hash(case))
        if len(res["samples"]) < 1:
            res["samples"].append(case)
        if status != "PASS":
            res["failures"].append({"property": prop, "engine": "c10",
                                    "case": case, "message": msg})
    return res


def replay(case, scratch, inc):
    return run_case((case, scratch, "c10_replay_%d" % os.getpid(), inc))


def shrinks(case):
    out = []
    for d in range(len(case["defs"])):
        c = json.loads(json.dumps(case))
        del c["defs"][d]
        out.append(c)
    if case["extra_int"]:
        out.append(dict(case, extra_int=False))
    for i, k in enumerate(case["kinds"]):
        if k != "ref":
            c = json.loads(json.dumps(case))
            c["kinds"][i] = "ref"
            out.append(c)
    return out
