"""Engine E3, property C03: `next` called from inside definitions.

A case: a small class DAG, one method of arity 1 or 2 declared with the
macros, definitions written with define_method (plain or in a method
container), each of which records its own number and then calls next with its
arguments.  The top-level call therefore walks the whole chain D, next(D),
next(next(D)), ... until an error target is reached; the chain and the final
error are compared with the reference model (select over the strictly more
general definitions), for every tuple of classes.  A second update without
change must leave the chains unchanged.

Definitions are written in one of several styles (the ways the API offers to
obtain next): define_method, define_method in a method container,
define_method_inline, a method declared with declare_static_method, and - with
the method declared through the method<> template - add_definition of a
container that inherits use_next<>, that declares its own static next, that
inherits method::next<>, or add_function with an explicit pointer to the next
variable (optionally instantiated a second time without it).
"""
import hashlib
import json
import os
import random
import subprocess


def gen_case(rng):
    n = rng.randint(2, 7)
    bases = [[]]
    for c in range(1, n):
        k = rng.choice([1, 1, 1, 2, 2, 0])
        bases.append(sorted(set(rng.randrange(c) for _ in range(k))))
    arity = rng.choice([1, 1, 2])
    vp = [0 if rng.random() < 0.7 else rng.randrange(n) for _ in range(arity)]
    anc = ancestors_of(n, bases)
    defs = []
    seen = set()
    for _ in range(rng.randint(1, 7)):
        t = tuple(rng.choice([c for c in range(n) if p in anc[c]])
                  for p in vp)
        if t not in seen:
            seen.add(t)
            defs.append(list(t))
    return {"n": n, "bases": bases, "vp": vp, "defs": defs,
            "container": rng.random() < 0.4,
            "per_class_reg": rng.random() < 0.3,
            # (macro styles) the method lives in a namespace nested in one
            # that declares another method with the same name, signature and
            # policy and a definition of its own: two distinct methods
            "shadow": rng.random() < 0.4,
            # (use_next / next<> styles) a second method with the same
            # signature whose definition names the same tag type in its own
            # use_next<> / next<>: two methods, two next variables
            "sibling": rng.random() < 0.5,
            "reg_order": rng.sample(range(n), n),
            "style": rng.choice(["macro", "macro", "macro_inline",
                                 "static_method", "use_next",
                                 "next_member",
                                 "next_alias", "add_function",
                                 "add_function_twice"]),
            "policy": rng.choice(["debug", "release"]),
            "extra_int": rng.random() < 0.3}


def ancestors_of(n, bases):
    anc = [set([c]) for c in range(n)]
    for c in range(n):
        for b in bases[c]:
            anc[c] |= anc[b]
    return anc


def case_key(case):
    return json.dumps(case, sort_keys=True)


def has_diamond(case):
    anc = ancestors_of(case["n"], case["bases"])
    for c in range(case["n"]):
        bs = case["bases"][c]
        for i in range(len(bs)):
            for j in range(i + 1, len(bs)):
                if anc[bs[i]] & anc[bs[j]]:
                    return True
    return False


def select(case, anc, cands):
    """cands: indices into defs. returns index, 'N' or 'A'"""
    if not cands:
        return "N"

    def more_specific(a, b):
        some = False
        for x, y in zip(case["defs"][a], case["defs"][b]):
            if x == y:
                continue
            if x in anc[y]:
                return False
            if y in anc[x]:
                some = True
        return some
    for d in cands:
        if all(e == d or more_specific(d, e) for e in cands):
            return d
    return "A"


def expected(case):
    anc = ancestors_of(case["n"], case["bases"])
    n = case["n"]
    doms = [[c for c in range(n) if p in anc[c]] for p in case["vp"]]
    tuples = [[]]
    for dom in doms:
        tuples = [t + [c] for t in tuples for c in dom]
    out = []
    for t in tuples:
        app = [d for d, dc in enumerate(case["defs"])
               if all(dc[i] in anc[t[i]] for i in range(len(t)))]
        cur = select(case, anc, app)
        chain = []
        while isinstance(cur, int):
            chain.append(str(cur))
            general = [e for e, ec in enumerate(case["defs"])
                       if e != cur and ec != case["defs"][cur] and
                       all(ec[i] in anc[case["defs"][cur][i]]
                           for i in range(len(ec)))]
            cur = select(case, anc, general)
        chain.append(cur)
        out.append(">".join(chain))
    return " ".join(out), tuples


def emit(case):
    n = case["n"]
    virt = "virtual " if has_diamond(case) else ""
    out = ["#include <yorel/yomm2/keywords.hpp>", "#include <cstdio>",
           "#include <string>", "using namespace yorel::yomm2;",
           "using pol = policy::%s;" % case["policy"]]
    for c in range(n):
        bs = case["bases"][c]
        inh = (" : " + ", ".join("%sK%d" % (virt, b) for b in bs)) if bs \
            else ""
        out.append("struct K%d%s { virtual ~K%d() {} long pad%d = %d; };" % (
            c, inh, c, c, c))
    if case.get("per_class_reg"):
        # one register_class per class, direct bases only, any order
        for c in case.get("reg_order", list(reversed(range(n)))):
            out.append("register_class(%s, pol);" % ", ".join(
                ["K%d" % c] + ["K%d" % b for b in case["bases"][c]]))
    else:
        out.append("register_classes(%s, pol);" % ", ".join(
            "K%d" % c for c in case.get("reg_order", range(n))))
    params = ["virtual_<K%d&>" % p for p in case["vp"]]
    if case["extra_int"]:
        params.insert(1 if len(params) > 1 else 0, "int")
    style = case.get("style", "macro")
    shadow = case.get("shadow", False) and style in ("macro", "macro_inline")
    out.append("static std::string g_chain;")
    if shadow:
        # (the classes are global, so argument-dependent lookup does not
        # reach namespace outer; inside inner, inner's walk hides outer's)
        out.append("namespace outer {")
        out.append("declare_method(void, walk, (%s), pol);" %
                   ", ".join(params))
        sp = ["K%d& a%d" % (c, k) for k, c in enumerate(case["vp"])]
        if case["extra_int"]:
            sp.insert(1 if len(sp) > 1 else 0, "int x")
        out.append("define_method(void, walk, (%s)) { g_chain += \"X>\"; }" %
                   ", ".join(sp))
        out.append("namespace inner {")
    if style in ("macro", "macro_inline"):
        out.append("declare_method(void, walk, (%s), pol);" %
                   ", ".join(params))
    elif style == "static_method":
        # a method declared as a static member (no ADL), defined with the
        # qualified name
        out.append("struct host { declare_static_method(void, walk, (%s), "
                   "pol); };" % ", ".join(params))
        out.append("template<class... T> void walk(T&&... a) { "
                   "host::walk(std::forward<T>(a)...); }")
    else:
        out.append("struct walk_key;")
        out.append("using walk_m = method<walk_key, void(%s), pol>;" %
                   ", ".join(params))
        out.append("template<class... T> void walk(T&&... a) { "
                   "walk_m::fn(std::forward<T>(a)...); }")
    if (style == "macro" and case["container"]) or style == "macro_inline":
        out.append("method_container(defs);")
    for d, t in enumerate(case["defs"]):
        ps = ["K%d& a%d" % (c, k) for k, c in enumerate(t)]
        args = ["a%d" % k for k in range(len(t))]
        if case["extra_int"]:
            pos = 1 if len(ps) > 1 else 0
            ps.insert(pos, "int x")
            args.insert(pos, "x")
        body = "{ g_chain += \"%d>\"; next(%s); }" % (d, ", ".join(args))
        sig = ", ".join(ps)
        if style == "macro_inline":
            out.append("define_method_inline(defs, void, walk, (%s)) %s" % (
                sig, body))
        elif style == "macro" and case["container"]:
            out.append("define_method(defs, void, walk, (%s)) %s" % (
                sig, body))
        elif style == "macro":
            out.append("define_method(void, walk, (%s)) %s" % (sig, body))
        elif style == "static_method":
            out.append("define_method(void, host::walk, (%s)) %s" % (
                sig, body))
        elif style == "use_next":
            out.append("struct def%d : walk_m::use_next<def%d> { static void "
                       "fn(%s) %s };" % (d, d, sig, body))
            out.append("static walk_m::add_definition<def%d> reg%d;" % (d, d))
        elif style == "next_member":
            out.append("struct def%d { static walk_m::next_type next; static "
                       "void fn(%s) %s };" % (d, sig, body))
            out.append("walk_m::next_type def%d::next;" % d)
            out.append("static walk_m::add_definition<def%d> reg%d;" % (d, d))
        elif style == "next_alias":
            out.append("struct def%d : walk_m::next<def%d> { static void "
                       "fn(%s) %s };" % (d, d, sig, body))
            out.append("static walk_m::add_definition<def%d> reg%d;" % (d, d))
        else:
            out.append("static walk_m::next_type next%d;" % d)
            out.append("static void fn%d(%s) { g_chain += \"%d>\"; "
                       "next%d(%s); }" % (d, sig, d, d, ", ".join(args)))
            out.append("static walk_m::add_function<fn%d> reg%d(&next%d);" % (
                d, d, d))
            if style == "add_function_twice":
                out.append("static walk_m::add_function<fn%d> again%d;" % (
                    d, d))
    if case.get("sibling") and style in ("use_next", "next_alias") and \
            case["defs"]:
        sp = ["K%d& a%d" % (c, k) for k, c in enumerate(case["vp"])]
        if case["extra_int"]:
            sp.insert(1 if len(sp) > 1 else 0, "int x")
        out.append("struct walk2_key;")
        out.append("using walk2_m = method<walk2_key, void(%s), pol>;" %
                   ", ".join(params))
        helper = "use_next" if style == "next_alias" else "next"
        for d in range(len(case["defs"])):
            out.append("struct sib%d : walk2_m::%s<def%d> { static void "
                       "fn(%s) { g_chain += \"S>\"; } };" % (
                           d, helper, d, ", ".join(sp)))
            out.append("static walk2_m::add_definition<sib%d> regsib%d;" % (
                d, d))
    if shadow:
        out.append("} } // namespace outer::inner")
    out.append("static std::string record() {")
    out.append("    std::string r;")
    for c in range(n):
        out.append("    static K%d o%d;" % (c, c))
    exp, tuples = expected(case)
    for t in tuples:
        args = ["static_cast<K%d&>(o%d)" % (p, c)
                for p, c in zip(case["vp"], t)]
        if case["extra_int"]:
            args.insert(1 if len(args) > 1 else 0, "7")
        out.append("    g_chain.clear(); try { " + (
            "outer::inner::" if shadow else "") + "walk(%s); g_chain += \"?\"; } "
                   "catch (const resolution_error& e) { g_chain += e.status "
                   "== resolution_error::ambiguous ? \"A\" : \"N\"; } r += "
                   "g_chain + \" \";" % ", ".join(args))
    out.append("    if (!r.empty()) r.pop_back();")
    out.append("    return r;")
    out.append("}")
    out.append("int main() {")
    out.append("    pol::error = [](const error_type& e) { if (auto r = "
               "std::get_if<resolution_error>(&e)) throw *r; std::printf("
               "\"ERROR other error\\n\"); std::exit(3); };")
    out.append("    update<pol>();")
    out.append("    std::string first = record();")
    out.append("    update<pol>();")
    out.append("    std::string second = record();")
    out.append("    std::printf(\"1 %s\\n2 %s\\n\", first.c_str(), "
               "second.c_str());")
    out.append("    return 0;")
    out.append("}")
    return "\n".join(out), exp


def run_case(args):
    case, workdir, name, inc = args
    os.makedirs(workdir, exist_ok=True)
    src = os.path.join(workdir, name + ".cpp")
    exe = os.path.join(workdir, name)
    text, exp = emit(case)
    with open(src, "w") as f:
        f.write(text)
    p = subprocess.run(["clang++", "-std=c++17", "-g0", "-O1", "-w",
                        "-fsanitize=address,undefined",
                        "-fno-sanitize-recover=undefined", "-I" + inc, src,
                        "-o", exe], capture_output=True, text=True)
    status, msg = "PASS", ""
    if p.returncode != 0:
        err = [l for l in p.stderr.splitlines() if "error" in l]
        status, msg = "SKIP", "does not compile: " + (
            err[0][:300] if err else p.stderr[-300:])
    else:
        env = dict(os.environ, ASAN_OPTIONS="detect_leaks=0")
        r = subprocess.run([exe], capture_output=True, text=True, env=env)
        lines = r.stdout.splitlines()
        if r.returncode != 0 or len(lines) < 2:
            status, msg = "FAIL", "crash: exit %d %s" % (
                r.returncode, r.stderr[-300:])
        else:
            first, second = lines[0][2:], lines[1][2:]
            if first != exp:
                status = "FAIL"
                msg = "next-chain: the chains of next calls are '%s', the " \
                      "model says '%s'" % (first[:200], exp[:200])
            elif second != first:
                status = "FAIL"
                msg = "next-chain-second-update: chains differ after a " \
                      "second update without change"
    for f in (src, exe):
        try:
            os.remove(f)
        except OSError:
            pass
    long_chain = any(ch.count(">") >= 2 for ch in exp.split(" "))
    return status, msg, long_chain


def _hash(case):
    return int.from_bytes(hashlib.sha256(case_key(case).encode()).digest()[:8],
                          "little")


def check(tier, seed, scratch, inc, ncpu, pool_map, prop="C03"):
    n = 16 if tier == "quick" else 160
    rng = random.Random(seed * 49979687 + (1 if tier == "quick" else 2))
    cases = [gen_case(rng) for _ in range(n)]
    # every style appears in every run, the quick one included
    forced = [dict(style="use_next", sibling=True),
              dict(style="next_alias", sibling=True),
              dict(style="macro", shadow=True, container=False),
              dict(style="add_function_twice"),
              dict(style="macro_inline", shadow=True),
              dict(style="static_method"),
              dict(style="next_member"),
              dict(style="use_next", sibling=True),
              dict(style="next_alias", sibling=True)]
    for i, f in enumerate(forced):
        if i < len(cases):
            cases[i] = dict(cases[i], **f)
    results = pool_map(run_case, [(c, scratch, "c03_%d" % i, inc)
                                  for i, c in enumerate(cases)])
    res = dict(evaluations=0, nontrivial=0, inconclusive=0, classes={},
               excluded={}, samples=[], failures=[], hashes=set())
    for case, (status, msg, long_chain) in zip(cases, results):
        res["evaluations"] += 1
        for label, flag in (("next_program", True),
                            ("next_program_method_container",
                             case["container"] and
                             case.get("style", "macro") == "macro"),
                            ("next_program_style_" +
                             case.get("style", "macro"), True),
                            ("next_program_same_name_in_outer_namespace",
                             case.get("shadow", False) and
                             case.get("style", "macro") in (
                                 "macro", "macro_inline")),
                            ("next_program_sibling_method_same_tag",
                             case.get("sibling", False) and
                             case.get("style", "macro") in (
                                 "use_next", "next_alias")),
                            ("next_chain_of_3+_definitions", long_chain)):
            if flag:
                res["classes"][label] = res["classes"].get(label, 0) + 1
        if status == "SKIP":
            res["inconclusive"] += 1
            continue
        if long_chain:
            res["nontrivial"] += 1
            res["hashes"].add(_hash(case))
            if len(res["samples"]) < 1:
                res["samples"].append(case)
        if status != "PASS":
            res["failures"].append({"property": prop, "engine": "c03",
                                    "case": case, "message": msg})
    return res


def replay(case, scratch, inc):
    status, msg, _ = run_case((case, scratch, "c03_replay_%d" % os.getpid(),
                               inc))
    if status == "SKIP":
        return "PASS", msg
    return status, msg


def shrinks(case):
    out = []
    for d in range(len(case["defs"])):
        c = json.loads(json.dumps(case))
        del c["defs"][d]
        out.append(c)
    if case["container"]:
        out.append(dict(case, container=False))
    if case["extra_int"]:
        out.append(dict(case, extra_int=False))
    if case.get("style", "macro") != "macro":
        out.append(dict(case, style="macro"))
    if case.get("shadow"):
        out.append(dict(case, shadow=False))
    if case.get("sibling"):
        out.append(dict(case, sibling=False))
    return out
