"""Engine E3, property C11: generated programs.

A case is one combination of
  virtual parameter kind x inheritance shape between the method's class and
  the definition's class x parameter position x non-virtual parameter
  categories x return category x policy,
drawn from random.Random(seed).  Cases are packed into translation units
(compile cost dominates), compiled against /repo/include, and run.  The oracle
is computed by the language itself inside the generated caller.
"""
import hashlib
import json
import os
import random
import subprocess

VKINDS = ["ref", "cref", "rref", "ptr", "cptr", "sp", "csp", "vp", "vsp",
          "cvsp"]
SHAPES = ["same", "first_base", "second_base", "virtual_base", "two_levels",
          "diamond"]
NV = ["int", "tval_l", "tval_r", "tref", "tcref", "trref", "uptr_rref",
      "uptr_val"]
RETS = ["void", "int", "tval", "tref"]
# "custom": a policy whose rtti facet is not the language's: static ids are
# the addresses of per-type statics (minimal_rtti, which tells `const T` from
# `T`), dynamic ids are read from a field of the object
POLICIES = ["debug", "release", "custom"]


def gen_case(rng):
    n_nv = rng.choice([0, 1, 1, 2, 2])
    case = {
        "vkind": rng.choice(VKINDS),
        "shape": rng.choice(SHAPES),
        "most_derived_is_def_class": rng.random() < 0.4,
        "nv": [rng.choice(NV) for _ in range(n_nv)],
        "ret": rng.choice(RETS),
        "policy": rng.choice(POLICIES),
    }
    case["vpos"] = rng.randrange(n_nv + 1)
    # definitions may also be member functions of the definition's class,
    # registered with add_member_function: the method's first parameter is
    # then the virtual T* that becomes `this`
    if case["vkind"] == "ptr" and rng.random() < 0.5:
        case["member"] = True
        case["vpos"] = 0
    return case


def case_key(case):
    return json.dumps(case, sort_keys=True)


def nontrivial(case):
    """expected address differs from the most-derived object's (decided by the
    shape), or a tracked / move-only argument is involved"""
    adjust = case["shape"] in ("second_base", "virtual_base", "two_levels",
                               "diamond")
    tracked = any(c != "int" for c in case["nv"]) or \
        case["ret"] in ("tval", "tref")
    return adjust or tracked


PRELUDE = r"""
#include <yorel/yomm2/keywords.hpp>

#include <cstdio>
#include <memory>
#include <string>

using namespace yorel::yomm2;

struct Tracked {
    int id;
    static inline int copies = 0, moves = 0;
    explicit Tracked(int id) : id(id) {}
    Tracked(const Tracked& o) : id(o.id) { ++copies; }
    Tracked(Tracked&& o) : id(o.id) { ++moves; o.id = -1; }
    Tracked& operator=(const Tracked&) = delete;
};

struct IdBase { type_id dyn_id = 0; };
struct custom_rtti : policy::minimal_rtti {
    template<typename T> static type_id dynamic_type(const T& obj) {
        if constexpr (std::is_base_of_v<IdBase, T>) {
            return static_cast<const IdBase&>(obj).dyn_id;
        } else {
            return static_type<T>();
        }
    }
    template<typename D, typename B> static D dynamic_cast_ref(B&& obj) {
        return dynamic_cast<D>(obj);
    }
};
struct custom_policy : policy::debug::rebind<custom_policy>::replace<
                           policy::rtti, custom_rtti> {};
#define IDCTOR(K) K() { this->dyn_id = policy::minimal_rtti::static_type<K>(); }

static int g_failures = 0;
static std::string g_msg;
static bool g_known_multi_move = false;
static bool g_adjusted = false;
static void fail(const std::string& m) { if (g_msg.empty()) g_msg = m; }

// what the definition body saw
static const void* seen_virtual;
static long seen_use_count;
static bool seen_shares;
static const void* seen_addr[4];
static int seen_val[4];
static int seen_copies, seen_moves;
static int which_def;
static Tracked g_ret_obj(4242);
"""


def shape_classes(shape, most_is_def, memdecl=""):
    pad = "struct Pad { virtual ~Pad() {} long pad[3] = {1, 2, 3}; };\n" \
          "struct Pad2 { virtual ~Pad2() {} long pad2[2] = {4, 5}; };\n"
    base = "struct Base : IdBase { IDCTOR(Base) virtual ~Base() {} int b = 11; %s};\n" % (
        memdecl if shape == "same" else "")
    if shape == "same":
        body = "using Der = Base;\n"
    elif shape == "first_base":
        body = "struct Der : Base, Pad { IDCTOR(Der) int d = 12; " + memdecl + "};\n"
    elif shape == "second_base":
        body = "struct Der : Pad, Base { IDCTOR(Der) int d = 12; " + memdecl + "};\n"
    elif shape == "virtual_base":
        body = "struct Der : virtual Base { IDCTOR(Der) int d = 12; " + memdecl + "};\n"
    elif shape == "two_levels":
        body = "struct Mid : Pad, Base { IDCTOR(Mid) int m = 13; };\n" \
               "struct Der : Pad2, Mid { IDCTOR(Der) int d = 12; " + memdecl + "};\n"
    else:
        body = "struct L : virtual Base { IDCTOR(L) int l = 14; };\n" \
               "struct R : virtual Base { IDCTOR(R) long r = 15; };\n" \
               "struct Der : L, R { IDCTOR(Der) int d = 12; " + memdecl + "};\n"
    if most_is_def:
        most = "using Most = Der;\n"
    else:
        most = "struct Most : Der { IDCTOR(Most) long most = 16; };\n"
    # a second most-derived class with another layout: the same definition
    # must adjust correctly for objects of both
    most += "struct Pad3 { virtual ~Pad3() {} long pad3[5] = {6, 7, 8, 9, 10}; };\n"
    if shape == "same":
        most += "struct Most2 : Pad3, Base { IDCTOR(Most2) long most2[3] = {17, 18, 19}; };\n"
    else:
        most += "struct Most2 : Pad3, Der { IDCTOR(Most2) long most2[3] = {17, 18, 19}; };\n"
    reg = ["Base"]
    if shape == "two_levels":
        reg.append("Mid")
    if shape == "diamond":
        reg += ["L", "R"]
    if shape != "same":
        reg.append("Der")
    if not most_is_def:
        reg.append("Most")
    reg.append("Most2")
    return pad + base + body + most, reg


def vdecl(kind, cls, pol):
    return {
        "ref": "virtual_<%s&>" % cls,
        "cref": "virtual_<const %s&>" % cls,
        "rref": "virtual_<%s&&>" % cls,
        "ptr": "virtual_<%s*>" % cls,
        "cptr": "virtual_<const %s*>" % cls,
        "sp": "virtual_<std::shared_ptr<%s>>" % cls,
        "csp": "virtual_<const std::shared_ptr<%s>&>" % cls,
        "vp": "VP_%s" % cls,
        "vsp": "VSP_%s" % cls,
        "cvsp": "const VSP_%s&" % cls,
    }[kind]


def vparam(kind, cls, pol):
    return {
        "ref": "%s& x" % cls,
        "cref": "const %s& x" % cls,
        "rref": "%s&& x" % cls,
        "ptr": "%s* x" % cls,
        "cptr": "const %s* x" % cls,
        "sp": "std::shared_ptr<%s> x" % cls,
        "csp": "const std::shared_ptr<%s>& x" % cls,
        "vp": "VP_%s x" % cls,
        "vsp": "VSP_%s x" % cls,
        "cvsp": "const VSP_%s& x" % cls,
    }[kind]


def vsee(kind):
    if kind in ("ref", "cref", "rref"):
        return "seen_virtual = &x;"
    if kind in ("ptr", "cptr"):
        return "seen_virtual = x;"
    if kind in ("sp", "csp"):
        return ("seen_virtual = x.get(); seen_use_count = x.use_count(); "
                "seen_shares = !x.owner_before(g_owner) && "
                "!g_owner.owner_before(x);")
    if kind == "vp":
        return "seen_virtual = x.get();"
    return ("seen_virtual = x.get().get(); "
            "seen_use_count = x.get().use_count(); "
            "seen_shares = !x.get().owner_before(g_owner) && "
            "!g_owner.owner_before(x.get());")


NV_TYPE = {
    "int": "int", "tval_l": "Tracked", "tval_r": "Tracked",
    "tref": "Tracked&", "tcref": "const Tracked&", "trref": "Tracked&&",
    "uptr_rref": "std::unique_ptr<int>&&", "uptr_val": "std::unique_ptr<int>",
}


def nv_see(cat, i):
    if cat == "int":
        return "seen_val[%d] = a%d;" % (i, i)
    if cat in ("tval_l", "tval_r"):
        return "seen_val[%d] = a%d.id; seen_addr[%d] = &a%d;" % (i, i, i, i)
    if cat in ("tref", "tcref", "trref"):
        return "seen_val[%d] = a%d.id; seen_addr[%d] = &a%d;" % (i, i, i, i)
    if cat == "uptr_rref":
        return "seen_val[%d] = a%d ? *a%d : -1; seen_addr[%d] = &a%d;" % (
            i, i, i, i, i)
    return "seen_val[%d] = a%d ? *a%d : -1;" % (i, i, i)


def emit_case(idx, case):
    pol = "custom_policy" if case["policy"] == "custom" else \
        "policy::" + case["policy"]
    kind = case["vkind"]
    nv = case["nv"]
    vpos = case["vpos"]
    ret = case["ret"]
    ret_t = {"void": "void", "int": "int", "tval": "Tracked",
             "tref": "Tracked&"}[ret]
    member = case.get("member", False)
    memparams = ", ".join("%s a%d" % (NV_TYPE[c], k)
                          for k, c in enumerate(nv))
    classes, reg = shape_classes(
        case["shape"], case["most_derived_is_def_class"],
        "%s memfn(%s); " % (ret_t, memparams) if member else "")
    # parameter lists
    decl, dparams, bparams = [], [], []
    k = 0
    for pos in range(len(nv) + 1):
        if pos == vpos:
            decl.append(vdecl(kind, "Base", pol))
            dparams.append(vparam(kind, "Der", pol))
            bparams.append(vparam(kind, "Base", pol))
        else:
            decl.append(NV_TYPE[nv[k]])
            dparams.append("%s a%d" % (NV_TYPE[nv[k]], k))
            bparams.append("%s a%d" % (NV_TYPE[nv[k]], k))
            k += 1
    body_ret = {"void": "", "int": "return 777;",
                "tval": "return Tracked(888);",
                "tref": "return g_ret_obj;"}[ret]
    sees = " ".join(nv_see(c, i) for i, c in enumerate(nv))
    out = []
    out.append("namespace case_%d {" % idx)
    out.append("using P = %s;" % pol)
    out.append(classes)
    # types that contain commas cannot be macro arguments: aliases
    out.append("using VP_Base = virtual_ptr<Base, P>; "
               "using VP_Der = virtual_ptr<Der, P>;")
    out.append("using VSP_Base = virtual_shared_ptr<Base, P>; "
               "using VSP_Der = virtual_shared_ptr<Der, P>;")
    out.append("static std::shared_ptr<Base> g_owner;")
    out.append("register_classes(%s, P);" % ", ".join(reg))
    out.append("declare_method(%s, fn, (%s), P);" % (ret_t, ", ".join(decl)))
    if case["shape"] != "same":
        out.append("define_method(%s, fn, (%s)) { which_def = 1; %s }" % (
            ret_t, ", ".join(bparams),
            {"void": "", "int": "return -1;", "tval": "return Tracked(-1);",
             "tref": "return g_ret_obj;"}[ret]))
    if member:
        out.append("%s Der::memfn(%s) {" % (ret_t, memparams))
    else:
        out.append("define_method(%s, fn, (%s)) {" % (
            ret_t, ", ".join(dparams)))
    out.append("    which_def = 2; seen_copies = Tracked::copies; "
               "seen_moves = Tracked::moves;")
    out.append("    " + ("seen_virtual = this;" if member else vsee(kind)) +
               " " + sees)
    out.append("    " + body_ret)
    out.append("}")
    if member:
        out.append("static method_class(%s, fn, (%s), P)::"
                   "add_member_function<&Der::memfn> reg_member;" % (
                       ret_t, ", ".join(decl)))
    # the caller
    out.append("template<class Most> static void run_with(const char* "
               "which) {")
    out.append("    which_def = 0;")
    out.append("    auto owner = std::make_shared<Most>();")
    out.append("    g_owner = owner;")
    out.append("    Most& obj = *owner;")
    out.append("    Base& as_base = obj;")
    out.append("    const void* expected = static_cast<Der*>(&obj);")
    out.append("    bool adjusted = expected != static_cast<void*>("
               "static_cast<Base*>(&obj)) || expected != "
               "static_cast<void*>(&obj);")
    varg = {
        "ref": "as_base", "cref": "as_base", "rref": "std::move(as_base)",
        "ptr": "&as_base", "cptr": "&as_base",
        "sp": "g_owner", "csp": "g_owner",
        "vp": "VP_Base(as_base)",
        "vsp": "VSP_Base(g_owner)",
        "cvsp": "VSP_Base(g_owner)",
    }[kind]
    args = []
    k = 0
    for pos in range(len(nv) + 1):
        if pos == vpos:
            args.append(varg)
            continue
        c = nv[k]
        if c == "int":
            args.append("%d" % (70 + k))
        elif c in ("tval_l", "tref", "tcref"):
            out.append("    Tracked t%d(%d);" % (k, 50 + k))
            args.append("t%d" % k)
        elif c in ("tval_r", "trref"):
            out.append("    Tracked t%d(%d);" % (k, 50 + k))
            args.append("std::move(t%d)" % k)
        else:
            out.append("    auto u%d = std::make_unique<int>(%d);" % (
                k, 60 + k))
            if c == "uptr_rref":
                out.append("    const void* u%d_addr = &u%d;" % (k, k))
            args.append("std::move(u%d)" % k)
        k += 1
    out.append("    Tracked::copies = Tracked::moves = 0;")
    call = "fn(%s)" % ", ".join(args)
    if ret == "void":
        out.append("    %s;" % call)
    elif ret == "int":
        out.append("    int r = %s; if (r != 777) fail(\"return value "
                   "changed\");" % call)
    elif ret == "tval":
        out.append("    int c0 = Tracked::copies;")
        out.append("    Tracked r = %s; if (r.id != 888) fail(\"returned "
                   "object changed\");" % call)
        out.append("    (void)c0;")
    else:
        out.append("    Tracked& r = %s; if (&r != &g_ret_obj) fail("
                   "\"returned reference does not refer to the object the "
                   "definition returned\");" % call)
    if ret == "tval":
        out.append("    if (Tracked::copies - seen_copies != 0) fail("
                   "\"the returned object was copied on its way back\");")
    out.append("    if (which_def != 2) fail(\"the definition for the "
               "derived class did not run\");")
    out.append("    if (seen_virtual != expected) fail(\"the definition "
               "received another address than the caller's object viewed as "
               "its parameter class\");")
    if kind in ("sp", "csp", "vsp", "cvsp"):
        out.append("    if (!seen_shares) fail(\"the smart pointer received "
                   "does not share ownership with the caller's\");")
    # non-virtual argument checks
    for k, c in enumerate(nv):
        if c == "int":
            out.append("    if (seen_val[%d] != %d) fail(\"int argument "
                       "changed\");" % (k, 70 + k))
        elif c == "tval_l":
            out.append("    if (seen_val[%d] != %d) fail(\"by-value "
                       "argument changed\");" % (k, 50 + k))
            out.append("    if (t%d.id != %d) fail(\"the caller's lvalue "
                       "was modified\");" % (k, 50 + k))
        elif c == "tval_r":
            out.append("    if (seen_val[%d] != %d) fail(\"by-value "
                       "argument changed\");" % (k, 50 + k))
        elif c in ("tref", "tcref", "trref"):
            out.append("    if (seen_addr[%d] != &t%d || seen_val[%d] != %d) "
                       "fail(\"reference argument does not refer to the "
                       "caller's object\");" % (k, k, k, 50 + k))
        elif c == "uptr_rref":
            out.append("    if (seen_addr[%d] != u%d_addr || seen_val[%d] != "
                       "%d) fail(\"move-only rvalue reference does not refer "
                       "to the caller's object\");" % (k, k, k, 60 + k))
        else:
            out.append("    if (seen_val[%d] != %d) fail(\"move-only by-value "
                       "argument lost its value\");" % (k, 60 + k))
    # copies and moves before the body ran
    n_l = sum(1 for c in nv if c == "tval_l")
    n_r = sum(1 for c in nv if c == "tval_r")
    out.append("    if (seen_copies != %d) fail(\"%d copies of tracked "
               "arguments expected before the body runs (one per by-value "
               "parameter given an lvalue, none for rvalues and "
               "references), got \" + std::to_string(seen_copies));" % (
                   n_l, n_l))
    if n_l + n_r == 0:
        out.append("    if (seen_moves != 0) fail(\"a reference argument was "
                   "moved before the body ran\");")
    else:
        # by-value parameters are moved once per forwarding layer: a known,
        # recorded finding when it exceeds one move per rvalue argument
        out.append("    if (seen_moves > %d) g_known_multi_move = true;" % (
            n_l + n_r))
    out.append("    g_adjusted = g_adjusted || adjusted;")
    out.append("    if (!g_msg.empty() && g_msg.find(\" [object: \") == "
               "std::string::npos) g_msg += std::string(\" [object: \") + "
               "which + \"]\";")
    out.append("    g_owner.reset();")
    out.append("}")
    out.append("static void run() {")
    out.append("    g_msg.clear(); g_known_multi_move = false; g_adjusted = "
               "false;")
    out.append("    run_with<Most>(\"Most\");")
    out.append("    run_with<Most2>(\"Most2, another layout\");")
    out.append("    run_with<Most>(\"Most again\");")
    out.append("    std::printf(\"CASE %d %%s nontrivial=%%d %%s\\n\", "
               "g_msg.empty() ? (g_known_multi_move ? \"KNOWN\" : \"PASS\") "
               ": \"FAIL\", int(g_adjusted), g_msg.c_str());" % idx)
    out.append("}")
    out.append("} // namespace")
    return "\n".join(out)


def emit_program(cases):
    parts = [PRELUDE]
    for i, c in enumerate(cases):
        parts.append(emit_case(i, c))
    parts.append("int main() {")
    parts.append("    update<policy::debug>();")
    parts.append("    update<policy::release>();")
    parts.append("    update<custom_policy>();")
    for i in range(len(cases)):
        parts.append("    case_%d::run();" % i)
    parts.append("    return 0;")
    parts.append("}")
    return "\n".join(parts)


def build_and_run(cases, workdir, name, inc, flags, cxx="clang++"):
    """returns list of (status, nontrivial, message) per case, or a compile
    error string"""
    os.makedirs(workdir, exist_ok=True)
    src = os.path.join(workdir, name + ".cpp")
    exe = os.path.join(workdir, name)
    with open(src, "w") as f:
        f.write(emit_program(cases))
    p = subprocess.run([cxx, "-std=c++17", "-g0", "-O1", "-I" + inc] + flags +
                       [src, "-o", exe], capture_output=True, text=True)
    if p.returncode != 0:
        return "compile: " + first_error(p.stderr)
    env = dict(os.environ)
    env["ASAN_OPTIONS"] = "detect_leaks=0"
    r = subprocess.run([exe], capture_output=True, text=True, env=env)
    res = {}
    for line in r.stdout.splitlines():
        if line.startswith("CASE "):
            parts = line.split(" ", 4)
            res[int(parts[1])] = (parts[2], parts[3] == "nontrivial=1",
                                  parts[4] if len(parts) > 4 else "")
    out = []
    for i in range(len(cases)):
        if i in res:
            out.append(res[i])
        else:
            out.append(("FAIL", False,
                        "crash: the program died before or in this case "
                        "(exit %d) %s" % (r.returncode, r.stderr[-300:])))
    for f in (src, exe):
        try:
            os.remove(f)
        except OSError:
            pass
    return out


def first_error(stderr):
    for line in stderr.splitlines():
        if "error:" in line:
            return line.split("error:", 1)[1].strip()[:300]
    return stderr[-300:]


def run_unit(args):
    cases, workdir, name, inc, flags = args
    res = build_and_run(cases, workdir, name, inc, flags)
    if isinstance(res, str):
        # a case does not compile: find which, one program per case
        out = []
        for i, c in enumerate(cases):
            r = build_and_run([c], workdir, "%s_c%d" % (name, i), inc, flags)
            if isinstance(r, str):
                out.append(("FAIL", nontrivial(c), r))
            else:
                out.append(r[0])
        return out
    if len(cases) > 1 and any(r[0] == "FAIL" and r[2].startswith("crash:")
                              for r in res):
        # the program died: the cases that did not report are run one by one,
        # so that a crash is attributed to the case that causes it
        for i, c in enumerate(cases):
            if res[i][0] == "FAIL" and res[i][2].startswith("crash:"):
                r = build_and_run([c], workdir, "%s_c%d" % (name, i), inc,
                                  flags)
                res[i] = ("FAIL", nontrivial(c), r) if isinstance(r, str) \
                    else r[0]
    return res


def _hash(case):
    return int.from_bytes(hashlib.sha256(case_key(case).encode()).digest()[:8],
                          "little")


def check(tier, seed, scratch, inc, ncpu, pool_map):
    """Generated search.  Returns a worker-style result dict."""
    units = 8 if tier == "quick" else 64
    per_unit = 24 if tier == "quick" else 40
    rng = random.Random(seed * 7919 + (1 if tier == "quick" else 2))
    all_units = []
    for u in range(units):
        cases = [gen_case(rng) for _ in range(per_unit)]
        all_units.append((cases, scratch, "c11_u%d" % u, inc,
                          ["-fsanitize=address,undefined",
                           "-fno-sanitize-recover=undefined"]))
    results = pool_map(run_unit, all_units)
    res = dict(evaluations=0, nontrivial=0, inconclusive=0, classes={},
               excluded={}, samples=[], failures=[], hashes=set())
    for (cases, *_), outs in zip(all_units, results):
        for case, (status, adjusted, msg) in zip(cases, outs):
            res["evaluations"] += 1
            for label in ("vkind=" + case["vkind"], "shape=" + case["shape"],
                          "policy=" + case["policy"]) + (
                              ("definition_is_member_function",)
                              if case.get("member") else ()):
                res["classes"][label] = res["classes"].get(label, 0) + 1
            for c in set(case["nv"]):
                res["classes"]["nv=" + c] = res["classes"].get("nv=" + c,
                                                               0) + 1
            if adjusted:
                res["classes"]["address_adjusted"] = \
                    res["classes"].get("address_adjusted", 0) + 1
            if adjusted or nontrivial(case):
                res["nontrivial"] += 1
                res["hashes"].add(_hash(case))
                if len(res["samples"]) < 3:
                    res["samples"].append(case)
            if status == "KNOWN":
                res["excluded"]["F11b"] = res["excluded"].get("F11b", 0) + 1
            elif status != "PASS":
                res["failures"].append({"property": "C11", "engine": "c11",
                                        "case": case, "message": msg})
    return res


def replay(case, scratch, inc):
    """returns (status, message): PASS / KNOWN / FAIL"""
    out = run_unit(([case], scratch, "c11_replay_%d" % os.getpid(), inc,
                    ["-fsanitize=address,undefined",
                     "-fno-sanitize-recover=undefined"]))
    status, _, msg = out[0]
    return status, msg


def shrinks(case):
    """simpler neighbours of a case"""
    out = []
    for i in range(len(case["nv"])):
        c = dict(case)
        c["nv"] = case["nv"][:i] + case["nv"][i + 1:]
        c["vpos"] = min(case["vpos"], len(c["nv"]))
        out.append(c)
    if case["ret"] != "void":
        out.append(dict(case, ret="void"))
    if case["shape"] != "same":
        out.append(dict(case, shape="same"))
    if case["vkind"] != "ref":
        out.append(dict(case, vkind="ref"))
    if not case["most_derived_is_def_class"]:
        out.append(dict(case, most_derived_is_def_class=True))
    if case["policy"] != "debug":
        out.append(dict(case, policy="debug"))
    if case.get("member"):
        c = dict(case)
        del c["member"]
        out.append(c)
    return out
