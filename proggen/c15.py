"""Engine E3, property C15: a class that was never registered, in a program of
two translation units.

A case: a small tree of registered classes in a common header, one method of
arity 1..2, and in the second translation unit a leaf class in an unnamed
namespace that is *not* registered - optionally while the first translation
unit registers a different class of the same name in its own unnamed
namespace (two distinct classes whose type_info names are equal).  The
unregistered class is used as the parameter class of a definition (update
must report unknown_class with its id) or as the dynamic class of an argument
passed by reference or through a virtual_ptr built from a base reference (the
call must report unknown_class with its id, exactly once, and no body runs).
Stock debug policy, throwing handler.
"""
import hashlib
import json
import os
import random
import subprocess

USAGES = ["def_param", "dynamic_ref", "dynamic_vp"]


def gen_case(rng):
    n = rng.randint(1, 5)
    parent = [None] + [rng.randrange(c) for c in range(1, n)]
    arity = rng.choice([1, 1, 2])
    return {"n": n, "parent": parent, "arity": arity,
            "leaf_parent": rng.randrange(n),
            "namesake": rng.random() < 0.6,
            "namesake_parent": rng.randrange(n),
            "usage": rng.choice(USAGES),
            "position": rng.randrange(arity),
            "defs": sorted(set(rng.randrange(n)
                               for _ in range(rng.randint(0, 3))))}


def case_key(case):
    return json.dumps(case, sort_keys=True)


def emit(case):
    n = case["n"]
    arity = case["arity"]
    common = ["#ifndef COMMON_HPP", "#define COMMON_HPP",
              "#include <yorel/yomm2/keywords.hpp>"]
    for c in range(n):
        p = case["parent"][c]
        common.append("struct K%d%s { %s int pad%d = %d; };" % (
            c, " : K%d" % p if p is not None else "",
            "virtual ~K0() {}" if c == 0 else "", c, c))
    params = ", ".join(["virtual_<K0&>"] * arity)
    vp = case["usage"] == "dynamic_vp"
    if vp:
        params = ", ".join(["yorel::yomm2::virtual_ptr<K0>"] * arity)
    common.append("declare_method(int, m, (%s));" % params)
    common.append("extern int g_bodies;")
    common.append("K0& tu2_object(); yorel::yomm2::type_id tu2_leaf_id();")
    common.append("#endif")
    tu2 = ["#include \"common.hpp\"", "using namespace yorel::yomm2;",
           "namespace { struct Leaf : K%d { long extra = 7; }; }" %
           case["leaf_parent"],
           "K0& tu2_object() { static Leaf leaf; return leaf; }",
           "type_id tu2_leaf_id() { return reinterpret_cast<type_id>("
           "&typeid(Leaf)); }"]
    if case["usage"] == "def_param":
        ps = ["K0& a%d" % i for i in range(arity)]
        ps[case["position"]] = "Leaf& a%d" % case["position"]
        tu2.append("define_method(int, m, (%s)) { ++g_bodies; return 99; }" %
                   ", ".join(ps))
    main = ["#include \"common.hpp\"", "#include <cstdio>",
            "using namespace yorel::yomm2;", "int g_bodies = 0;",
            "register_classes(%s);" % ", ".join("K%d" % c for c in range(n))]
    if case["namesake"]:
        main.append("namespace { struct Leaf : K%d { int other = 3; }; }" %
                    case["namesake_parent"])
        main.append("register_classes(Leaf, K%d);" % case["namesake_parent"])
    ptype = "virtual_ptr<K0>" if vp else None
    for c in case["defs"]:
        if vp:
            ps = ["virtual_ptr<K%d> a0" % c] + [
                "virtual_ptr<K0> a%d" % i for i in range(1, arity)]
        else:
            ps = ["K%d& a0" % c] + ["K0& a%d" % i for i in range(1, arity)]
        main.append("define_method(int, m, (%s)) { ++g_bodies; return %d; }"
                    % (", ".join(ps), c))
    main.append("struct Seen { int kind; type_id type; };")
    main.append("static int g_deliveries = 0;")
    main.append("int main() {")
    main.append("    default_policy::error = [](const error_type& e) { "
                "++g_deliveries; if (auto u = std::get_if<unknown_class_error>"
                "(&e)) throw Seen{1, u->type}; throw Seen{2, 0}; };")
    main.append("    const type_id leaf = tu2_leaf_id();")
    if case["usage"] == "def_param":
        main.append("    try { update(); std::printf(\"FAIL update accepted a "
                    "definition whose parameter class was never registered\\n"
                    "\"); return 1; } catch (const Seen& s) {")
        main.append("        if (s.kind != 1) { std::printf(\"FAIL update "
                    "reported another error than unknown_class\\n\"); return "
                    "1; }")
        main.append("        if (s.type != leaf) { std::printf(\"FAIL "
                    "unknown_class does not carry the id of the unregistered "
                    "class\\n\"); return 1; } }")
    else:
        main.append("    try { update(); } catch (const Seen& s) { "
                    "std::printf(\"FAIL update reported an error although "
                    "every class used statically is registered\\n\"); return "
                    "1; }")
        main.append("    K0 plain; K0& obj = tu2_object();")
        args = ["plain"] * arity
        args[case["position"]] = "obj"
        if vp:
            main.append("    try { %s std::printf(\"FAIL a virtual_ptr to an "
                        "object of an unregistered class was created without "
                        "a diagnostic\\n\"); return 1; } catch (const Seen& "
                        "s) {" % " ".join(
                            "virtual_ptr<K0> p%d(%s);" % (i, a)
                            for i, a in enumerate(args)))
        else:
            main.append("    try { int r = m(%s); std::printf(\"FAIL the call "
                        "went through (%%d) although an argument is of an "
                        "unregistered class\\n\", r); return 1; } catch (const "
                        "Seen& s) {" % ", ".join(args))
        main.append("        if (s.kind != 1 || s.type != leaf) { std::printf("
                    "\"FAIL the call did not report unknown_class with the "
                    "id of the unregistered class\\n\"); return 1; } }")
        main.append("    if (g_bodies != 0) { std::printf(\"FAIL a definition "
                    "body ran\\n\"); return 1; }")
    main.append("    if (g_deliveries != 1) { std::printf(\"FAIL the handler "
                "was entered %d times\\n\", g_deliveries); return 1; }")
    main.append("    std::printf(\"PASS\\n\");")
    main.append("    std::fflush(stdout); std::_Exit(0);")
    main.append("}")
    return {"common.hpp": "\n".join(common), "tu2.cpp": "\n".join(tu2),
            "main.cpp": "\n".join(main)}


def run_case(args):
    case, workdir, name, inc = args
    d = os.path.join(workdir, name)
    os.makedirs(d, exist_ok=True)
    for fn, text in emit(case).items():
        with open(os.path.join(d, fn), "w") as f:
            f.write(text)
    # g++: it gives internal-linkage classes type_info names that compare by
    # address, so that the two `Leaf`s are distinct types for typeid itself;
    # clang++ with libstdc++ makes typeid(Leaf of TU1) == typeid(Leaf of TU2),
    # and no library can tell them apart then
    p = subprocess.run(["g++", "-std=c++17", "-g0", "-O1", "-w",
                        "-fsanitize=address,undefined",
                        "-fno-sanitize-recover=undefined", "-I" + inc, "-I" + d,
                        os.path.join(d, "main.cpp"),
                        os.path.join(d, "tu2.cpp"), "-o",
                        os.path.join(d, "prog")],
                       capture_output=True, text=True)
    status, msg = "PASS", ""
    if p.returncode != 0:
        err = [l for l in p.stderr.splitlines() if "error" in l]
        status, msg = "FAIL", "compile: " + (
            err[0][:300] if err else p.stderr[-300:])
    else:
        env = dict(os.environ, ASAN_OPTIONS="detect_leaks=0")
        r = subprocess.run([os.path.join(d, "prog")], capture_output=True,
                           text=True, env=env)
        if "PASS" not in r.stdout:
            fl = [l for l in r.stdout.splitlines() if l.startswith("FAIL")]
            status = "FAIL"
            msg = ("unreg-program: " + fl[0][5:]) if fl else \
                "crash: exit %d %s" % (r.returncode, r.stderr[-300:])
    subprocess.run(["rm", "-rf", d])
    return status, msg


def _hash(case):
    return int.from_bytes(hashlib.sha256(case_key(case).encode()).digest()[:8],
                          "little")


def check(tier, seed, scratch, inc, ncpu, pool_map, prop="C15"):
    n = 12 if tier == "quick" else 120
    rng = random.Random(seed * 67867967 + (1 if tier == "quick" else 2))
    cases = [gen_case(rng) for _ in range(n)]
    # every usage with a namesake appears in every run
    for i, u in enumerate(USAGES):
        cases[i] = dict(cases[i], usage=u, namesake=True)
    results = pool_map(run_case, [(c, scratch, "c15_%d" % i, inc)
                                  for i, c in enumerate(cases)])
    res = dict(evaluations=0, nontrivial=0, inconclusive=0, classes={},
               excluded={}, samples=[], failures=[], hashes=set())
    for case, (status, msg) in zip(cases, results):
        res["evaluations"] += 1
        for label in ("unreg_program", "unreg_program_" + case["usage"]) + (
                ("unreg_program_same_name_registered_elsewhere",)
                if case["namesake"] else ()):
            res["classes"][label] = res["classes"].get(label, 0) + 1
        if case["usage"] != "dynamic_ref" or case["position"] >= 1:
            res["nontrivial"] += 1
            res["hashes"].add(_hash(case))
            if len(res["samples"]) < 1:
                res["samples"].append(case)
        if status != "PASS":
            res["failures"].append({"property": prop, "engine": "c15",
                                    "case": case, "message": msg})
    return res


def replay(case, scratch, inc):
    return run_case((case, scratch, "c15_replay_%d" % os.getpid(), inc))


def shrinks(case):
    out = []
    for d in range(len(case["defs"])):
        c = json.loads(json.dumps(case))
        del c["defs"][d]
        out.append(c)
    if case["arity"] > 1:
        out.append(dict(case, arity=1, position=0))
    if case["namesake"]:
        out.append(dict(case, namesake=False))
    return out
