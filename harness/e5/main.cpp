// Engine E5 (C18): registration catalogs.
//  variant "list":     static_list<Node> directly, against a std::vector model
//  variant "catalogs": the policy catalogs through real registration objects
//  --exhaustive L N:   every valid operation sequence up to length L on N nodes
#include <yorel/yomm2/core.hpp>

#include "../common/worker.hpp"

#include <csignal>
#include <new>

using namespace yorel::yomm2;
using vf::Choice;
using vf::json;
using vf::Outcome;

// ---------------------------------------------------------------------------
// (a) the list itself

struct Node : detail::static_list<Node>::static_link {
    int tag;
    bool unlinked() const {
        return prev_ptr == nullptr && next_ptr == nullptr;
    }
};

using List = detail::static_list<Node>;

struct ListOp {
    char op; // 'p' push_back, 'r' remove, 'c' clear
    int node;
};

struct ListSim {
    // zero-initialised storage, as the library's static objects are
    alignas(List) unsigned char list_mem[sizeof(List)] = {};
    alignas(Node) unsigned char node_mem[8][sizeof(Node)] = {};
    List& list;
    std::vector<Node*> model;
    int n;
    std::uint64_t observations = 0;
    bool removed_mid_or_last_then_push = false;
    bool pending = false;

    explicit ListSim(int n)
        : list(*reinterpret_cast<List*>(list_mem)), n(n) {
        for (int i = 0; i < n; ++i) {
            node(i).tag = i;
        }
    }
    Node& node(int i) {
        return *reinterpret_cast<Node*>(node_mem[i]);
    }
    bool in_list(int i) {
        return std::find(model.begin(), model.end(), &node(i)) != model.end();
    }
    bool valid(const ListOp& o) {
        if (o.op == 'p') {
            return !in_list(o.node);
        }
        if (o.op == 'r') {
            return in_list(o.node);
        }
        return true;
    }
    void apply(const ListOp& o) {
        if (o.op == 'p') {
            list.push_back(node(o.node));
            model.push_back(&node(o.node));
            if (pending) {
                removed_mid_or_last_then_push = true;
            }
        } else if (o.op == 'r') {
            auto it = std::find(model.begin(), model.end(), &node(o.node));
            if (model.size() > 1 && it != model.begin()) {
                pending = true; // middle or last element
            }
            list.remove(node(o.node));
            model.erase(it);
        } else {
            list.clear();
            model.clear();
        }
    }
    // compares list and model; "" when they agree
    std::string check() {
        ++observations;
        std::vector<Node*> seen;
        std::size_t guard = 0;
        for (auto& x : list) {
            seen.push_back(&x);
            if (++guard > 64) {
                return "list: iteration does not terminate";
            }
        }
        if (seen != model) {
            return "list: iteration order differs from the model";
        }
        const List& cl = list;
        std::vector<const Node*> cseen;
        guard = 0;
        for (auto& x : cl) {
            cseen.push_back(&x);
            if (++guard > 64) {
                return "list: const iteration does not terminate";
            }
        }
        if (cseen.size() != model.size() ||
            !std::equal(cseen.begin(), cseen.end(), model.begin())) {
            return "list: const iteration differs from the model";
        }
        if (list.size() != model.size()) {
            return "list: size() is " + std::to_string(list.size()) +
                ", model has " + std::to_string(model.size());
        }
        if (list.empty() != model.empty()) {
            return "list: empty() disagrees with the model";
        }
        for (int i = 0; i < n; ++i) {
            if (!in_list(i) && !node(i).unlinked()) {
                return "list: a removed node keeps a link (it cannot be "
                       "registered again)";
            }
        }
        return "";
    }
};

static json ops_json(const std::vector<ListOp>& ops, int n) {
    json j = {{"nodes", n}, {"ops", json::array()}};
    for (auto& o : ops) {
        j["ops"].push_back({std::string(1, o.op), o.node});
    }
    return j;
}

static Outcome run_list(const json& j) {
    Outcome o;
    int n = j.at("nodes");
    ListSim sim(n);
    vf::Fnv h;
    h.add(n);
    for (auto& jo : j.at("ops")) {
        ListOp op{jo[0].get<std::string>()[0], jo[1].get<int>() % n};
        if (!sim.valid(op)) {
            continue; // shrunk sequences may contain invalid steps: skipped
        }
        h.add(op.op);
        h.add(op.node);
        sim.apply(op);
        auto msg = sim.check();
        if (!msg.empty()) {
            o.fail(msg);
            break;
        }
    }
    o.hash = h.h;
    o.nontrivial = sim.removed_mid_or_last_then_push;
    if (o.nontrivial) {
        o.classes.push_back("remove_middle_or_last_then_push");
    }
    return o;
}

static json gen_list(Choice& ch, int size) {
    int n = 1 + ch.draw(6);
    int len = 1 + ch.draw(std::max(2, size));
    std::vector<ListOp> ops;
    // valid sequences by construction, from a pure model (the library is
    // not touched while generating)
    std::vector<char> in(n, 0);
    auto valid = [&](const ListOp& o) {
        return o.op == 'p' ? !in[o.node] : o.op == 'r' ? bool(in[o.node])
                                                       : true;
    };
    for (int i = 0; i < len; ++i) {
        ListOp op;
        int k = ch.draw(8);
        op.op = k < 4 ? 'p' : k < 7 ? 'r' : 'c';
        op.node = ch.draw(n);
        if (!valid(op)) {
            // pick the nearest valid alternative
            op.op = op.op == 'p' ? 'r' : 'p';
            if (!valid(op)) {
                continue;
            }
        }
        if (op.op == 'p') {
            in[op.node] = 1;
        } else if (op.op == 'r') {
            in[op.node] = 0;
        } else {
            in.assign(n, 0);
        }
        ops.push_back(op);
    }
    return ops_json(ops, n);
}

// A library assertion (BOOST_ASSERT -> abort) in the middle of the
// enumeration: report the sequence being replayed as the failing case.
static const std::vector<ListOp>* g_current_seq = nullptr;
static int g_current_n = 0;
static std::string g_exhaustive_out;

static void on_abort(int) {
    if (g_current_seq) {
        json res;
        res["property"] = "C18";
        res["variant"] = "list-exhaustive";
        res["evaluations"] = 1;
        res["nontrivial"] = 0;
        res["distinct_nontrivial"] = 0;
        res["inconclusive"] = 0;
        res["classes"] = json::object();
        res["excluded"] = json::object();
        res["samples"] = json::array();
        res["failures"] = json::array();
        res["failures"].push_back(
            {{"property", "C18"},
             {"variant", "list"},
             {"case", ops_json(*g_current_seq, g_current_n)},
             {"message", "crash: the library aborted (assertion) while "
                         "replaying this sequence"}});
        vf::save_json(g_exhaustive_out, res);
    }
    _exit(1);
}

static int exhaustive(int maxlen, int n, const std::string& out) {
    g_exhaustive_out = out;
    g_current_n = n;
    signal(SIGABRT, on_abort);
    std::uint64_t sequences = 0, observations = 0, nontrivial = 0;
    json failure;
    std::vector<ListOp> alphabet;
    for (int i = 0; i < n; ++i) {
        alphabet.push_back({'p', i});
        alphabet.push_back({'r', i});
    }
    alphabet.push_back({'c', 0});
    std::vector<ListOp> seq;
    std::vector<json> samples;
    std::function<bool(void)> rec = [&]() -> bool {
        // replay the prefix from scratch: no state shared between sequences
        g_current_seq = &seq;
        ListSim sim(n);
        for (auto& o : seq) {
            sim.apply(o);
        }
        auto msg = sim.check();
        observations += sim.observations;
        ++sequences;
        if (sim.removed_mid_or_last_then_push) {
            ++nontrivial;
            if (samples.size() < 2 && seq.size() == std::size_t(maxlen)) {
                samples.push_back(ops_json(seq, n));
            }
        }
        if (!msg.empty()) {
            failure = {{"property", "C18"},
                       {"variant", "list"},
                       {"case", ops_json(seq, n)},
                       {"message", msg}};
            return false;
        }
        if (int(seq.size()) == maxlen) {
            return true;
        }
        for (auto& o : alphabet) {
            if (!sim.valid(o)) {
                continue;
            }
            seq.push_back(o);
            bool ok = rec();
            seq.pop_back();
            if (!ok) {
                return false;
            }
        }
        return true;
    };
    rec();
    json res;
    res["property"] = "C18";
    res["variant"] = "list-exhaustive";
    res["evaluations"] = sequences;
    res["nontrivial"] = nontrivial;
    res["distinct_nontrivial"] = nontrivial; // every sequence is distinct
    res["inconclusive"] = 0;
    res["classes"] = {{"exhaustive_sequences_len<=" + std::to_string(maxlen) +
                           "_on_" + std::to_string(n) + "_nodes",
                       sequences}};
    res["excluded"] = json::object();
    res["samples"] = samples;
    res["failures"] = json::array();
    if (!failure.is_null()) {
        res["failures"].push_back(failure);
    }
    res["exhaustive"] = failure.is_null();
    vf::save_json(out, res);
    return failure.is_null() ? 0 : 1;
}

// ---------------------------------------------------------------------------
// (b) the catalogs through the real registration objects

struct cat_policy : policy::basic_policy<
                        cat_policy, policy::std_rtti,
                        policy::vptr_vector<cat_policy>,
                        policy::vectored_error<cat_policy>> {};

struct A {
    virtual ~A() {
    }
};
struct B : A {};
struct C : A {};
struct D : B {};

using CD0 = class_declaration<A, cat_policy>;
using CD1 = class_declaration<B, A, cat_policy>;
// the type-list form, policy last (docs: class_declaration<types<...>>)
using CD2 = class_declaration<detail::types<C, A, cat_policy>>;
using CD3 = class_declaration<detail::types<D, B, A, cat_policy>>;

// a second policy with registrations of its own, and the default policy with
// none: nothing done for cat_policy may show up in their catalogs (C14)
struct other_policy : policy::basic_policy<
                          other_policy, policy::std_rtti,
                          policy::vptr_vector<other_policy>,
                          policy::vectored_error<other_policy>> {};
static use_classes<A, B, other_policy> other_classes;

struct K0;
struct K1;
using M0 = method<K0, void(virtual_<A&>), cat_policy>;
using M1 = method<K1, void(virtual_<A&>, virtual_<A&>), cat_policy>;

using OM0 = method<K0, void(virtual_<A&>), other_policy>;

template<class Policy>
static std::vector<const void*> catalogs_of() {
    std::vector<const void*> v;
    for (auto& ci : Policy::classes) {
        v.push_back(&ci);
    }
    v.push_back(nullptr);
    for (auto& mi : Policy::methods) {
        v.push_back(&mi);
        for (auto& di : mi.specs) {
            v.push_back(&di);
        }
    }
    return v;
}

static void f0(A&) {
}
static void f1(B&) {
}
static void f2(C&) {
}

template<class T>
struct Slot {
    alignas(T) unsigned char mem[sizeof(T)];
    bool live = false;
    T* get() {
        return reinterpret_cast<T*>(mem);
    }
    void construct() {
        std::memset(mem, 0, sizeof mem); // static storage is zero-initialised
        new (mem) T();
        live = true;
    }
    void destroy() {
        get()->~T();
        live = false;
    }
};

static Outcome run_catalogs(const json& j) {
    Outcome o;
    vf::Fnv h;
    // class catalog
    Slot<CD0> c0[2];
    Slot<CD1> c1[2];
    Slot<CD2> c2[2];
    Slot<CD3> c3[2];
    std::vector<const detail::class_info*> cmodel;
    for (auto& ci : cat_policy::classes) {
        cmodel.push_back(&ci);
    }
    // method catalog: starts with the static `fn` objects
    Slot<M0> m0[2];
    Slot<M1> m1[2];
    std::vector<const detail::method_info*> mmodel;
    for (auto& mi : cat_policy::methods) {
        mmodel.push_back(&mi);
    }
    // definitions of M0::fn
    Slot<detail::definition_info> d[4];
    std::vector<const detail::definition_info*> dmodel;
    for (auto& di : M0::fn.specs) {
        dmodel.push_back(&di);
    }
    static bool added[3] = {false, false, false}; // function-local statics
                                                  // of add_function persist
    std::size_t base_defs = dmodel.size();
    (void)base_defs;
    bool reconstructed = false, removed_then_added = false, pending = false;

    auto class_ptr = [&](int k, int s) -> const detail::class_info* {
        switch (k) {
        case 0:
            return c0[s].get();
        case 1:
            return c1[s].get();
        case 2:
            return c2[s].get();
        default:
            return c3[s].get();
        }
    };
    auto class_live = [&](int k, int s) -> bool& {
        switch (k) {
        case 0:
            return c0[s].live;
        case 1:
            return c1[s].live;
        case 2:
            return c2[s].live;
        default:
            return c3[s].live;
        }
    };
    std::set<std::pair<int, int>> ever;
    (void)&OM0::fn;
    const auto other_before = catalogs_of<other_policy>();
    const auto default_before = catalogs_of<default_policy>();

    auto check = [&]() -> std::string {
        if (catalogs_of<other_policy>() != other_before ||
            catalogs_of<default_policy>() != default_before) {
            return "catalog-isolation: registering or unregistering for one "
                   "policy changed the catalogs of another policy";
        }
        std::vector<const detail::class_info*> cs;
        for (auto& ci : cat_policy::classes) {
            cs.push_back(&ci);
            if (cs.size() > 64) {
                return "catalog: class catalog iteration does not terminate";
            }
        }
        if (cs != cmodel) {
            return "catalog: class catalog differs from the live "
                   "class_declaration objects in registration order";
        }
        if (cat_policy::classes.size() != cmodel.size() ||
            cat_policy::classes.empty() != cmodel.empty()) {
            return "catalog: class catalog size()/empty() wrong";
        }
        std::vector<const detail::method_info*> ms;
        for (auto& mi : cat_policy::methods) {
            ms.push_back(&mi);
            if (ms.size() > 64) {
                return "catalog: method catalog iteration does not terminate";
            }
        }
        if (ms != mmodel) {
            return "catalog: method catalog differs from the live method "
                   "objects in registration order";
        }
        if (cat_policy::methods.size() != mmodel.size()) {
            return "catalog: method catalog size() wrong";
        }
        std::vector<const detail::definition_info*> ds;
        for (auto& di : M0::fn.specs) {
            ds.push_back(&di);
            if (ds.size() > 64) {
                return "catalog: definition catalog iteration does not "
                       "terminate";
            }
        }
        if (ds != dmodel) {
            return "catalog: definition catalog differs from the live "
                   "definitions in registration order";
        }
        if (M0::fn.specs.size() != dmodel.size() ||
            M0::fn.specs.empty() != dmodel.empty()) {
            return "catalog: definition catalog size()/empty() wrong";
        }
        return "";
    };

    for (auto& jo : j.at("ops")) {
        std::string op = jo[0];
        int a = jo[1], b = jo[2];
        h.add(op);
        h.add(a);
        h.add(b);
        if (op == "class") { // toggle class_declaration k in storage slot s
            int k = a % 4, s = b % 2;
            bool& live = class_live(k, s);
            if (!live) {
                switch (k) {
                case 0:
                    c0[s].construct();
                    break;
                case 1:
                    c1[s].construct();
                    break;
                case 2:
                    c2[s].construct();
                    break;
                default:
                    c3[s].construct();
                }
                cmodel.push_back(class_ptr(k, s));
                if (!ever.insert({k, s}).second) {
                    reconstructed = true;
                }
                if (pending) {
                    removed_then_added = true;
                }
            } else {
                auto p = class_ptr(k, s);
                auto it = std::find(cmodel.begin(), cmodel.end(), p);
                if (cmodel.size() > 1 && it != cmodel.begin()) {
                    pending = true;
                }
                cmodel.erase(it);
                switch (k) {
                case 0:
                    c0[s].destroy();
                    break;
                case 1:
                    c1[s].destroy();
                    break;
                case 2:
                    c2[s].destroy();
                    break;
                default:
                    c3[s].destroy();
                }
            }
        } else if (op == "method") {
            int k = a % 2, s = b % 2;
            bool live = k == 0 ? m0[s].live : m1[s].live;
            const detail::method_info* p =
                k == 0 ? static_cast<detail::method_info*>(m0[s].get())
                       : static_cast<detail::method_info*>(m1[s].get());
            if (!live) {
                if (k == 0) {
                    m0[s].construct();
                } else {
                    m1[s].construct();
                }
                mmodel.push_back(p);
                if (pending) {
                    removed_then_added = true;
                }
            } else {
                auto it = std::find(mmodel.begin(), mmodel.end(), p);
                if (mmodel.size() > 1 && it != mmodel.begin()) {
                    pending = true;
                }
                mmodel.erase(it);
                if (k == 0) {
                    m0[s].destroy();
                } else {
                    m1[s].destroy();
                }
            }
        } else if (op == "def") {
            int k = a % 4;
            if (!d[k].live) {
                d[k].construct();
                d[k].get()->method = &M0::fn;
                M0::fn.specs.push_back(*d[k].get());
                dmodel.push_back(d[k].get());
                if (pending) {
                    removed_then_added = true;
                }
            } else {
                auto it = std::find(dmodel.begin(), dmodel.end(), d[k].get());
                if (dmodel.size() > 1 && it != dmodel.begin()) {
                    pending = true;
                }
                dmodel.erase(it);
                d[k].destroy(); // the destructor unregisters
            }
        } else if (op == "add_function") {
            // the same function may be added any number of times: one entry
            int k = a % 3;
            std::size_t before = M0::fn.specs.size();
            if (k == 0) {
                M0::add_function<f0> add;
            } else if (k == 1) {
                M0::add_function<f1> add;
            } else {
                M0::add_function<f2> add;
            }
            if (!added[k]) {
                added[k] = true;
                // its definition_info is a function-local static: find it
                if (M0::fn.specs.size() != before + 1) {
                    o.fail("catalog: add_function did not register exactly "
                           "one definition");
                    break;
                }
                const detail::definition_info* last = nullptr;
                for (auto& di : M0::fn.specs) {
                    last = &di;
                }
                dmodel.push_back(last);
            } else {
                o.classes.push_back("add_function_twice");
            }
        }
        auto msg = check();
        if (!msg.empty()) {
            o.fail(msg);
            break;
        }
    }
    // tear down what is still alive, checking along the way
    for (int k = 3; k >= 0 && o.ok; --k) {
        if (d[k].live) {
            dmodel.erase(std::find(dmodel.begin(), dmodel.end(), d[k].get()));
            d[k].destroy();
        }
    }
    for (int s = 0; s < 2; ++s) {
        if (m0[s].live) {
            mmodel.erase(std::find(
                mmodel.begin(), mmodel.end(),
                static_cast<detail::method_info*>(m0[s].get())));
            m0[s].destroy();
        }
        if (m1[s].live) {
            mmodel.erase(std::find(
                mmodel.begin(), mmodel.end(),
                static_cast<detail::method_info*>(m1[s].get())));
            m1[s].destroy();
        }
        for (int k = 0; k < 4; ++k) {
            if (class_live(k, s)) {
                cmodel.erase(std::find(
                    cmodel.begin(), cmodel.end(), class_ptr(k, s)));
                switch (k) {
                case 0:
                    c0[s].destroy();
                    break;
                case 1:
                    c1[s].destroy();
                    break;
                case 2:
                    c2[s].destroy();
                    break;
                default:
                    c3[s].destroy();
                }
            }
        }
    }
    if (o.ok) {
        auto msg = check();
        if (!msg.empty()) {
            o.fail(msg + " (after unregistering everything)");
        }
    }
    o.hash = h.h;
    o.nontrivial = removed_then_added;
    if (reconstructed) {
        o.classes.push_back("object_registered_again");
    }
    if (removed_then_added) {
        o.classes.push_back("remove_middle_or_last_then_push");
    }
    return o;
}

static json gen_catalogs(Choice& ch, int size) {
    json j = {{"ops", json::array()}};
    int len = 1 + ch.draw(std::max(2, size));
    static const char* kinds[] = {"class",  "class", "class",       "method",
                                  "method", "def",   "def",         "def",
                                  "add_function"};
    for (int i = 0; i < len; ++i) {
        j["ops"].push_back(
            {kinds[ch.draw(9)], int(ch.draw(4)), int(ch.draw(2))});
    }
    return j;
}

static std::vector<json> shrink_ops(const json& j) {
    std::vector<json> out;
    auto& ops = j.at("ops");
    for (std::size_t i = 0; i < ops.size(); ++i) {
        json r = j;
        r["ops"].erase(i);
        out.push_back(r);
    }
    return out;
}

static std::optional<vf::Property>
lookup(const std::string& id, const std::string& variant) {
    if (id != "C18" &&
        !((id == "C14" || id == "C07") && variant == "catalogs")) {
        return std::nullopt;
    }
    vf::Property p;
    p.id = id;
    p.variant = variant;
    if (variant == "catalogs") {
        p.generate = gen_catalogs;
        p.run = run_catalogs;
    } else {
        p.generate = gen_list;
        p.run = run_list;
    }
    p.shrinks = shrink_ops;
    return p;
}

#ifdef VERIF_FUZZ
extern "C" int LLVMFuzzerTestOneInput(const std::uint8_t* data,
                                      std::size_t size) {
    static std::vector<vf::Property> table = {*lookup("C18", "list"), *lookup("C18", "catalogs")};
    static bool once = [] {
        std::atexit([] {
            fflush(nullptr);
            _exit(0);
        });
        return true;
    }();
    (void)once;
    return vf::fuzz_one(data, size, table, "e5");
}
#else
int main(int argc, char** argv) {
    if (vf::hasflag(argc, argv, "--exhaustive")) {
        int len = atoi(vf::getarg(argc, argv, "--exhaustive").c_str());
        int n = atoi(vf::getarg(argc, argv, "--nodes", "3").c_str());
        int rc = exhaustive(len, n, vf::getarg(argc, argv, "--out"));
        fflush(nullptr);
        _exit(rc);
    }
    int rc = vf::worker_main(argc, argv, &lookup);
    fflush(nullptr);
    _exit(rc);
}
#endif
