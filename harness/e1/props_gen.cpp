// C12: generated static offsets.  C13: encoded dispatch data.
// generator.hpp defines two non-inline non-template functions: it is included
// in this translation unit only.
#include "props.hpp"

#include <yorel/yomm2/generator.hpp>

#include <cctype>
#include <cstdlib>

namespace e1 {

// ---------------------------------------------------------------------------
// a policy-shaped view of a configuration's method catalog, so that the
// generator can be driven without instantiating it per configuration

struct MethodRange {
    detail::method_catalog* c = nullptr;
    auto begin() {
        return c->begin();
    }
    auto end() {
        return c->end();
    }
};

struct methods_view : policy::abstract_policy {
    static inline MethodRange methods;
};

static std::vector<long long> numbers_in(const std::string& s) {
    std::vector<long long> v;
    const char* p = s.c_str();
    while (*p) {
        if (std::isdigit((unsigned char)*p) ||
            (*p == '-' && std::isdigit((unsigned char)p[1]))) {
            char* end;
            v.push_back(std::strtoll(p, &end, 0));
            p = end;
        } else {
            ++p;
        }
    }
    return v;
}

struct Offsets {
    bool parsed = false;
    std::vector<long long> slots, strides;
};

// one line of write_static_offsets output
static Offsets parse_offsets_line(const std::string& line) {
    Offsets o;
    auto s1 = line.find("slots[] = {");
    if (s1 == std::string::npos) {
        return o;
    }
    auto e1 = line.find('}', s1);
    if (e1 == std::string::npos) {
        return o;
    }
    o.slots = numbers_in(line.substr(s1 + 11, e1 - s1 - 11));
    auto s2 = line.find("strides[] = {", e1);
    if (s2 != std::string::npos) {
        auto e2 = line.find('}', s2);
        if (e2 == std::string::npos) {
            return o;
        }
        o.strides = numbers_in(line.substr(s2 + 13, e2 - s2 - 13));
    }
    o.parsed = true;
    return o;
}

static Outcome run_offsets(const SpecCase& c) {
    Outcome o;
    o.hash = hash_case(c);
    Config& cfg = need_config(c.cfg);
    World w(cfg, c.spec);
    w.register_all();
    // one case in two: the same generator object already wrote the offsets
    // of these methods before this update (whatever the previous case left
    // installed); what it writes afterwards must be the current offsets
    generator reused;
    bool reuse = (o.hash & 1) != 0;
    if (reuse) {
        methods_view::methods.c = cfg.methods;
        std::ostringstream before;
        reused.write_static_offsets<methods_view>(before);
        o.classes.push_back("generator_object_reused_across_an_update");
    }
    UpdateOutcome up;
    if (!do_update(w, o, up)) {
        return o;
    }
    methods_view::methods.c = cfg.methods;
    std::ostringstream os;
    if (reuse) {
        reused.write_static_offsets<methods_view>(os);
    } else {
        generator().write_static_offsets<methods_view>(os);
    }
    std::vector<std::string> lines;
    {
        std::istringstream is(os.str());
        std::string line;
        while (std::getline(is, line)) {
            if (!line.empty()) {
                lines.push_back(line);
            }
        }
    }
    if (lines.size() != w.meths.size()) {
        o.inconclusive = true; // text no longer parses: compile tier decides
        o.classes.push_back("offsets_text_unparsed");
        return o;
    }
    bool arity3 = false;
    // catalog order == spec order (register_all)
    for (std::size_t m = 0; m < w.meths.size() && o.ok; ++m) {
        auto& mi = w.meths[m];
        std::size_t arity = mi.ms->vp.size();
        arity3 |= arity >= 3;
        Offsets off = parse_offsets_line(lines[m]);
        if (!off.parsed) {
            o.inconclusive = true;
            o.classes.push_back("offsets_text_unparsed");
            return o;
        }
        std::string who = "method#" + std::to_string(m) + "(" +
            shape_table()[mi.ms->shape].str + ")";
        if (off.slots.size() != arity ||
            off.strides.size() != (arity > 1 ? arity - 1 : 0)) {
            o.fail("offsets-count: " + who + ": generated " +
                   std::to_string(off.slots.size()) + " slots and " +
                   std::to_string(off.strides.size()) + " strides for arity " +
                   std::to_string(arity));
            break;
        }
        const std::size_t* ss = mi.desc->info->slots_strides_ptr;
        const detail::generic_compiler::method* cm = nullptr;
        if (up.comp) {
            for (auto& x : up.comp->methods) {
                if (x.info == mi.desc->info) {
                    cm = &x;
                }
            }
        }
        for (std::size_t i = 0; i < arity && o.ok; ++i) {
            if (std::size_t(off.slots[i]) != ss[i] ||
                (cm && cm->slots[i] != ss[i])) {
                o.fail("offsets-slot: " + who + ": generated slot " +
                       std::to_string(i) + " = " +
                       std::to_string(off.slots[i]) + ", update installed " +
                       std::to_string(ss[i]));
            }
        }
        for (std::size_t i = 0; i + 1 < arity && o.ok; ++i) {
            if (std::size_t(off.strides[i]) != ss[arity + i] ||
                (cm && cm->strides[i] != ss[arity + i])) {
                o.fail("offsets-stride: " + who + ": generated stride " +
                       std::to_string(i) + " = " +
                       std::to_string(off.strides[i]) + ", update installed " +
                       std::to_string(ss[arity + i]));
            }
        }
        // methods compiled with static offsets: fill in the generated numbers
        if (o.ok && mi.desc->has_static_offsets) {
            for (std::size_t i = 0; i < arity; ++i) {
                mi.desc->static_slots[i] = std::size_t(off.slots[i]);
            }
            for (std::size_t i = 0; i + 1 < arity; ++i) {
                mi.desc->static_strides[i] = std::size_t(off.strides[i]);
            }
        }
    }
    if (!o.ok) {
        return o;
    }
    // The same text must come out when the offsets are written on a stream
    // that another generator function used before (one stream for both
    // generated files): numbers are read the way a C++ compiler reads integer
    // literals.
    if (c.spec.id_scheme == "typeinfo" && up.comp) {
        std::ostringstream os2;
        generator::encode_dispatch_data(*up.comp, "POLICY", os2);
        auto mark = os2.str().size();
        generator().write_static_offsets<methods_view>(os2);
        std::istringstream is2(os2.str().substr(mark));
        std::string line;
        std::size_t m = 0;
        while (std::getline(is2, line) && o.ok) {
            if (line.empty()) {
                continue;
            }
            if (m >= lines.size()) {
                break;
            }
            Offsets a = parse_offsets_line(lines[m]);
            Offsets b = parse_offsets_line(line);
            if (!b.parsed || a.slots != b.slots || a.strides != b.strides) {
                o.fail("offsets-stream: method#" + std::to_string(m) +
                       ": the offsets written after encode_dispatch_data on "
                       "the same stream read as different numbers: '" + line +
                       "'");
            }
            ++m;
        }
        o.classes.push_back("offsets_written_after_encode_on_same_stream");
        if (!o.ok) {
            return o;
        }
    }
    // a program compiled with the generated offsets dispatches like one that
    // reads them at run time, and the consistency check stays silent
    DispatchStats ds;
    check_dispatch(w, o, ds, true, 1);
    if (!o.ok) {
        o.message = "offsets-use-" + o.message;
        return o;
    }
    // ... and rejects any other offsets (checked policies)
    bool perturbed = false, forked = false;
    if (cfg.checked) {
        for (std::size_t m = 0; m < w.meths.size() && o.ok; ++m) {
            auto& mi = w.meths[m];
            if (!mi.desc->has_static_offsets) {
                continue;
            }
            const MethSpec& ms = *mi.ms;
            std::size_t arity = ms.vp.size();
            Tuples tu(c.spec, ms, 1);
            if (!tu.next()) {
                continue;
            }
            auto args = w.make_args(ms, tu.t.data());
            for (std::size_t k = 0; k < 2 * arity - 1 && o.ok; ++k) {
                std::size_t* cell = k < arity
                    ? &mi.desc->static_slots[k]
                    : &mi.desc->static_strides[k - arity];
                std::size_t saved = *cell;
                *cell = saved + 1;
                g_log.clear();
                ErrorRec e = guarded(
                    [&] { mi.desc->call(args.objs, args.ints, nullptr); });
                // with a handler that returns, the call must still be
                // rejected: the program aborts rather than carry on with the
                // wrong offset (forked child, once per case)
                if (!forked && !cfg.throw_facet) {
                    forked = true;
                    fflush(nullptr);
                    pid_t pid = fork();
                    if (pid == 0) {
                        int devnull = open("/dev/null", O_WRONLY);
                        if (devnull >= 0) {
                            dup2(devnull, 2);
                        }
                        signal(SIGABRT, sigabrt_probe);
                        cfg.set_handler_mode(1);
                        g_log.clear();
                        try {
                            mi.desc->call(args.objs, args.ints, nullptr);
                        } catch (...) {
                            _exit(44);
                        }
                        _exit(g_log.empty() ? 45 : 46);
                    }
                    int status = 0;
                    waitpid(pid, &status, 0);
                    int code = WIFEXITED(status) ? WEXITSTATUS(status) : -1;
                    if (code != 42) {
                        *cell = saved;
                        o.fail(std::string("offsets-check-no-abort: method#") +
                               std::to_string(m) + "(" +
                               shape_table()[ms.shape].str +
                               "): a wrong static " +
                               (k < arity ? "slot" : "stride") +
                               " was reported to a handler that returned, "
                               "and instead of aborting " +
                               (code == 46      ? "a definition body ran"
                                    : code == 45 ? "the call returned"
                                    : code == 44
                                    ? "an exception escaped"
                                    : "the child ended with status " +
                                        std::to_string(status)));
                        break;
                    }
                    o.classes.push_back(
                        "perturbed_offsets_with_returning_handler");
                }
                *cell = saved;
                perturbed = true;
                auto want = k < arity ? ErrorRec::static_slot
                                      : ErrorRec::static_stride;
                if (e.kind != want || !g_log.empty()) {
                    o.fail(std::string("offsets-check: method#") +
                           std::to_string(m) + "(" +
                           shape_table()[ms.shape].str + "): a wrong static " +
                           (k < arity ? "slot " : "stride ") +
                           std::to_string(k < arity ? k : k - arity) +
                           " is not rejected by the consistency check (got " +
                           err_name(e) + (g_log.empty() ? "" : ", a body ran") +
                           ")");
                }
            }
        }
    }
    o.nontrivial = arity3;
    common_classes(c.spec, o);
    o.classes.push_back(cfg.name.c_str());
    if (perturbed) {
        o.classes.push_back("perturbed_static_offsets");
    }
    return o;
}

Property prop_C12(const std::string& variant) {
    auto gen = [variant](Choice& ch, int size) {
        SpecCase c;
        c.cfg = pick_cfg(ch, {"chk_vec", "fast_vec", "nohash_vec", "map"},
                         variant);
        GenOpts o;
        o.id_schemes = ids_for(need_config(c.cfg));
        o.max_defs = 5;
        o.vp_anywhere = true;
        o.many_methods = true; // slots of two digits and more
        c.spec = gen_spec(ch, o, size);
        // chk_vec and fast_vec have twins compiled with static offsets
        if (c.cfg == "chk_vec" || c.cfg == "fast_vec") {
            for (auto& m : c.spec.meths) {
                if (ch.chance(1, 2)) {
                    bool clash = false;
                    for (auto& other : c.spec.meths) {
                        clash |= &other != &m && other.shape == m.shape &&
                            other.key == 2;
                    }
                    if (!clash) {
                        m.key = 2;
                    }
                }
            }
        }
        return c;
    };
    return make_spec_property("C12", variant, gen, run_offsets, true);
}

// ---------------------------------------------------------------------------
// C13

struct Encoded {
    bool parsed = false;
    long long sizes[5] = {}; // headroom, slots, encoded vtbls, vtbls, dtbls
    std::vector<long long> slots, vtbls, dtbls;
};

static std::string strip_comments(const std::string& text) {
    std::string out;
    std::istringstream is(text);
    std::string line;
    while (std::getline(is, line)) {
        auto p = line.find("//");
        out += line.substr(0, p);
        out += '\n';
    }
    return out;
}

static Encoded parse_encoded(const std::string& raw) {
    Encoded e;
    std::string text = strip_comments(raw);
    const char* names[] = {"headroom[", "slots[", "vtbls[", "vtbls[",
                           "dtbls["};
    std::size_t pos = 0;
    for (int i = 0; i < 5; ++i) {
        pos = text.find(names[i], pos);
        if (pos == std::string::npos) {
            return e;
        }
        pos += std::strlen(names[i]);
        e.sizes[i] = std::strtoll(text.c_str() + pos, nullptr, 10);
    }
    auto a = text.find("{ { { {}, {", pos);
    if (a == std::string::npos) {
        return e;
    }
    a += 11;
    auto b = text.find("}, {", a);
    if (b == std::string::npos) {
        return e;
    }
    auto c = text.find("} } }, {", b + 4);
    if (c == std::string::npos) {
        return e;
    }
    auto d = text.find("} };", c + 8);
    if (d == std::string::npos) {
        return e;
    }
    e.slots = numbers_in(text.substr(a, b - a));
    e.vtbls = numbers_in(text.substr(b + 4, c - b - 4));
    e.dtbls = numbers_in(text.substr(c + 8, d - c - 8));
    e.parsed = text.find("decode_dispatch_data<", d) != std::string::npos;
    return e;
}

static Outcome run_encode(const SpecCase& c) {
    Outcome o;
    o.hash = hash_case(c);
    Config& cfg = need_config(c.cfg);
    World w(cfg, c.spec);
    w.register_all();
    UpdateOutcome up;
    if (!do_update(w, o, up)) {
        return o;
    }
    Obs before = observe(w);
    bool offset_vtbl = false, empty_vtbl = false, multi = false;
    for (auto& cc : up.comp->classes) {
        offset_vtbl |= cc.first_slot != 0;
        empty_vtbl |= cc.vtbl.empty();
    }
    for (auto& m : c.spec.meths) {
        multi |= m.vp.size() >= 2;
    }
    // One case in three: another update, of a registry with one more method
    // registered *before* the others (so their slots move), happens between
    // the update whose result is encoded and the encoding; the registry is
    // then put back.  An update result must encode the same whatever
    // happened to the policy since.
    if ((o.hash % 3) == 0 && !w.meths.empty()) {
        MethodDesc* extra = nullptr;
        for (auto& d : cfg.pool) {
            bool used = false;
            for (auto& mi : w.meths) {
                used |= mi.desc == &d;
            }
            if (!used && d.key < 2 && d.arity == 1 &&
                std::string(d.shape) == "V") {
                extra = &d;
                break;
            }
        }
        if (extra) {
            auto range = w.id_array({w.meths[0].ms->vp[0]}, {});
            extra->info->vp_begin = range.first;
            extra->info->vp_end = range.second;
            for (std::size_t m = 0; m < w.meths.size(); ++m) {
                w.unregister_method(m);
            }
            cfg.methods->push_back(*extra->info);
            for (std::size_t m = 0; m < w.meths.size(); ++m) {
                w.register_method(m);
            }
            UpdateOutcome later = cfg.update();
            cfg.methods->remove(*extra->info);
            if (later.err.kind != ErrorRec::none) {
                o.inconclusive = true;
                return o;
            }
            o.classes.push_back(
                "older_update_result_encoded_after_a_later_update");
        }
    }
    std::ostringstream os;
    generator::encode_dispatch_data(*up.comp, "POLICY", os);
    Encoded e = parse_encoded(os.str());
    if (!e.parsed) {
        o.inconclusive = true; // text no longer parses: compile tier decides
        o.classes.push_back("encoded_text_unparsed");
        return o;
    }
    // (a) the emitted declaration must be valid
    static const char* names[] = {"headroom", "slots", "encoded vtbls",
                                  "vtbls", "dtbls"};
    for (int i = 0; i < 5; ++i) {
        if (e.sizes[i] < 0) {
            o.fail(std::string("encode-size: declared size of '") + names[i] +
                   "' is negative (" + std::to_string(e.sizes[i]) + ")");
            return o;
        }
    }
    if ((long long)e.slots.size() > e.sizes[1] ||
        (long long)e.vtbls.size() > e.sizes[2] ||
        (long long)e.dtbls.size() > e.sizes[4]) {
        o.fail("encode-init: more initializers than declared elements");
        return o;
    }
    // (b) rebuild the structure in exact-size heap blocks and decode
    std::size_t enc_bytes =
        2 * std::size_t(e.sizes[0] + e.sizes[1] + e.sizes[2]);
    std::size_t dec_bytes = 8 * std::size_t(e.sizes[3]);
    std::size_t union_bytes = (std::max(enc_bytes, dec_bytes) + 7) / 8 * 8;
    // exact-size blocks: ASan sees any access outside them
    char* block = static_cast<char*>(std::malloc(std::max<std::size_t>(union_bytes, 1)));
    std::memset(block, 0, union_bytes);
    std::size_t dt_bytes = 8 * std::size_t(e.sizes[4]);
    std::uintptr_t* dtbls =
        static_cast<std::uintptr_t*>(std::malloc(std::max<std::size_t>(dt_bytes, 1)));
    std::memset(dtbls, 0, dt_bytes);
    DecodeData data;
    auto enc = reinterpret_cast<std::uint16_t*>(block);
    data.encoded.slots = enc + e.sizes[0];
    data.encoded.vtbls = enc + e.sizes[0] + e.sizes[1];
    data.vtbls = reinterpret_cast<std::uintptr_t*>(block);
    data.dtbls = dtbls;
    for (std::size_t i = 0; i < e.slots.size(); ++i) {
        data.encoded.slots[i] = std::uint16_t(e.slots[i]);
    }
    for (std::size_t i = 0; i < e.vtbls.size(); ++i) {
        data.encoded.vtbls[i] = std::uint16_t(e.vtbls[i]);
    }
    for (std::size_t i = 0; i < e.dtbls.size(); ++i) {
        dtbls[i] = std::uintptr_t(e.dtbls[i]);
    }
    // a fresh process holding the same registrations
    cfg.reset_runtime();
    for (auto& p : w.vptr_store) {
        p = nullptr;
    }
    for (auto& mi : w.meths) {
        std::size_t n = 2 * mi.ms->vp.size() - 1;
        for (std::size_t i = 0; i < n; ++i) {
            mi.desc->info->slots_strides_ptr[i] = 0xdead;
        }
    }
    ErrorRec de = guarded([&] { cfg.decode(data); });
    if (de.kind != ErrorRec::none) {
        // update found hash factors for the same ids (no search budget is
        // injected here), so a search failure while decoding is a failure
        // of the decoder (F16: a class registered several times had its id
        // handed to the search several times), not bad luck
        o.fail("decode-error: decoding raised " + err_name(de));
    } else {
        // decoded tables must stay inside the emitted structure
        for (int k = 0; k < c.spec.n && o.ok; ++k) {
            // every class has a record (canonical or random presentation)
            auto vp = reinterpret_cast<char*>(w.vptr_store[k]);
            (void)vp;
        }
        // (c) every tuple dispatches exactly as after update
        DispatchStats ds;
        check_dispatch(w, o, ds, true, 1);
        if (o.ok) {
            auto d = diff_obs(before, observe(w));
            if (!d.empty()) {
                o.fail("decode-differs: dispatch after decoding differs from "
                       "dispatch after update: " + d);
            }
        } else {
            o.message = "decode-" + o.message;
        }
    }
    std::free(block);
    std::free(dtbls);
    o.nontrivial = (offset_vtbl || empty_vtbl) && multi;
    common_classes(c.spec, o);
    if (offset_vtbl) {
        o.classes.push_back("class_with_first_slot_not_0");
    }
    if (empty_vtbl) {
        o.classes.push_back("class_without_vtable_entries");
    }
    return o;
}

Property prop_C13(const std::string& variant) {
    auto gen = [variant](Choice& ch, int size) {
        SpecCase c;
        c.cfg = pick_cfg(ch, {"chk_vec", "fast_vec", "map", "chk_vec_ind", "fast_vec_ind"}, variant);
        GenOpts o;
        o.id_schemes = {"typeinfo"}; // the generator prints class names
        o.lattice_bias = true;
        o.vp_anywhere = true;
        o.gappy = true;
        o.many_methods = true;
        o.allow_dup_defs = true;
        o.max_classes = 12;
        o.max_methods = 4;
        o.max_defs = 6;
        // several records per class exercise the decoder's "already
        // decoded" path
        o.canonical_presentation = ch.chance(1, 2);
        c.spec = gen_spec(ch, o, size);
        return c;
    };
    return make_spec_property("C13", variant, gen, run_encode, false, true);
}

} // namespace e1
