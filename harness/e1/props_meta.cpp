#include "props.hpp"

namespace e1 {

// ---------------------------------------------------------------------------
// C06: permutations of the registration order

struct Perm {
    std::vector<int> recs, meths;
    std::vector<std::vector<int>> defs; // per method (original index)
};

inline Spec apply_perm(const Spec& s, const Perm& p) {
    Spec r = s;
    r.recs.clear();
    for (int i : p.recs) {
        r.recs.push_back(s.recs[i]);
    }
    r.meths.clear();
    for (int mi : p.meths) {
        MethSpec m = s.meths[mi];
        m.defs.clear();
        for (int d : p.defs[mi]) {
            m.defs.push_back(s.meths[mi].defs[d]);
        }
        r.meths.push_back(m);
    }
    return r;
}

inline Perm gen_perm(Choice& ch, const Spec& s) {
    Perm p;
    for (std::size_t i = 0; i < s.recs.size(); ++i) {
        p.recs.push_back(int(i));
    }
    for (std::size_t i = 0; i < s.meths.size(); ++i) {
        p.meths.push_back(int(i));
        std::vector<int> d;
        for (std::size_t k = 0; k < s.meths[i].defs.size(); ++k) {
            d.push_back(int(k));
        }
        permute(ch, d);
        p.defs.push_back(d);
    }
    permute(ch, p.recs);
    permute(ch, p.meths);
    return p;
}

inline bool is_identity(const Perm& p) {
    auto id = [](const std::vector<int>& v) {
        for (std::size_t i = 0; i < v.size(); ++i) {
            if (v[i] != int(i)) {
                return false;
            }
        }
        return true;
    };
    bool r = id(p.recs) && id(p.meths);
    for (auto& d : p.defs) {
        r = r && id(d);
    }
    return r;
}

struct PermCase {
    SpecCase base;
    std::vector<Perm> perms;
    bool exhaustive = false; // enumerate every permutation instead
};

inline json to_json(const PermCase& c) {
    json j = to_json(c.base);
    j["exhaustive"] = c.exhaustive;
    j["perms"] = json::array();
    for (auto& p : c.perms) {
        j["perms"].push_back(
            {{"recs", p.recs}, {"meths", p.meths}, {"defs", p.defs}});
    }
    return j;
}

inline PermCase perm_case_from_json(const json& j) {
    PermCase c;
    c.base = spec_case_from_json(j);
    c.exhaustive = j.value("exhaustive", false);
    for (auto& jp : j.at("perms")) {
        Perm p;
        p.recs = jp.at("recs").get<std::vector<int>>();
        p.meths = jp.at("meths").get<std::vector<int>>();
        p.defs = jp.at("defs").get<std::vector<std::vector<int>>>();
        c.perms.push_back(p);
    }
    return c;
}

inline Outcome run_perm_case(const PermCase& c) {
    Outcome o;
    vf::Fnv h;
    h.add(hash_case(c.base));
    Config& cfg = need_config(c.base.cfg);
    const Spec& s = c.base.spec;
    Obs ref;
    if (!observe_spec(cfg, s, o, ref)) {
        return o;
    }
    bool three = false;
    for (auto& m : s.meths) {
        Tuples tu(s, m);
        while (tu.next() && !three) {
            three = count_applicable(s, m, tu.t.data()) >= 3;
        }
    }
    bool nonid = false;
    auto try_perm = [&](const Perm& p) {
        Spec ps = apply_perm(s, p);
        Obs obs;
        Outcome o2;
        if (!observe_spec(cfg, ps, o2, obs)) {
            if (!o2.ok) {
                o.fail(o2.message);
            }
            return;
        }
        auto d = diff_obs(ref, obs);
        if (!d.empty()) {
            o.fail("order: registering in a different order changes the "
                   "outcome: " + d);
        }
    };
    if (c.exhaustive) {
        Perm p;
        for (std::size_t i = 0; i < s.recs.size(); ++i) {
            p.recs.push_back(int(i));
        }
        for (std::size_t i = 0; i < s.meths.size(); ++i) {
            p.meths.push_back(int(i));
            p.defs.emplace_back();
            for (std::size_t k = 0; k < s.meths[i].defs.size(); ++k) {
                p.defs.back().push_back(int(k));
            }
        }
        // odometer over all permutations of records x methods x definitions
        std::function<void(std::size_t)> rec_defs = [&](std::size_t mi) {
            if (!o.ok) {
                return;
            }
            if (mi == p.defs.size()) {
                try_perm(p);
                return;
            }
            std::sort(p.defs[mi].begin(), p.defs[mi].end());
            do {
                rec_defs(mi + 1);
            } while (o.ok &&
                     std::next_permutation(
                         p.defs[mi].begin(), p.defs[mi].end()));
        };
        do {
            std::sort(p.meths.begin(), p.meths.end());
            do {
                rec_defs(0);
            } while (o.ok &&
                     std::next_permutation(p.meths.begin(), p.meths.end()));
        } while (o.ok && std::next_permutation(p.recs.begin(), p.recs.end()));
        nonid = true;
        o.classes.push_back("exhaustive_permutations");
    } else {
        for (auto& p : c.perms) {
            for (int x : p.recs) {
                h.add(x);
            }
            for (int x : p.meths) {
                h.add(x);
            }
            for (auto& d : p.defs) {
                for (int x : d) {
                    h.add(x);
                }
            }
            nonid |= !is_identity(p);
            if (o.ok) {
                try_perm(p);
            }
        }
    }
    o.hash = h.h;
    o.nontrivial = nonid && three;
    common_classes(s, o);
    if (three) {
        o.classes.push_back("tuple_with_3+_applicable");
    }
    if (int(s.recs.size()) > s.n) {
        o.classes.push_back("several_records_per_class");
    }
    if (has_nontransitive(s)) {
        o.classes.push_back("nontransitive_more_specific");
    }
    return o;
}

Property prop_C06(const std::string& variant) {
    auto gen = [variant](Choice& ch, int size) {
        PermCase c;
        c.base.cfg = pick_cfg(ch, {"chk_vec", "nohash_vec", "map"}, variant);
        GenOpts o;
        o.id_schemes = ids_for(need_config(c.base.cfg));
        c.exhaustive = ch.chance(1, 6);
        o.big_pool = !c.exhaustive;
        if (c.exhaustive) {
            o.max_classes = 3;
            o.max_methods = 2;
            o.max_defs = 3;
            o.lattice_bias = true;
        }
        // one case in three presents the graph through split, partial or
        // redundant records (C08's legal presentations): the order in which
        // the records of one class are met must not matter either
        if (!c.exhaustive && ch.chance(1, 3)) {
            o.canonical_presentation = false;
            o.lattice_bias = true;
        }
        c.base.spec = gen_spec(ch, o, size);
        if (!c.exhaustive) {
            int np = 2 + (size > 50 ? ch.draw(4) : 0);
            for (int i = 0; i < np; ++i) {
                c.perms.push_back(gen_perm(ch, c.base.spec));
            }
        }
        return c;
    };
    Property p;
    p.id = "C06";
    p.variant = variant;
    p.generate = [gen](Choice& ch, int size) { return to_json(gen(ch, size)); };
    p.run = [](const json& j) { return run_perm_case(perm_case_from_json(j)); };
    p.fast = [gen](Choice& ch, int size, std::function<json()>& lazy) {
        auto c = std::make_shared<PermCase>(gen(ch, size));
        lazy = [c]() { return to_json(*c); };
        return run_perm_case(*c);
    };
    p.shrinks = [](const json& j) {
        PermCase c = perm_case_from_json(j);
        std::vector<json> out;
        // fewer permutations
        for (std::size_t i = 0; i < c.perms.size() && c.perms.size() > 1;
             ++i) {
            PermCase r = c;
            r.perms.erase(r.perms.begin() + i);
            out.push_back(to_json(r));
        }
        // smaller registry; permutations become "reverse everything"
        for (auto& s : spec_shrinks(c.base.spec, true)) {
            PermCase r;
            r.base = {c.base.cfg, s};
            r.exhaustive = c.exhaustive;
            if (!c.exhaustive) {
                Perm p;
                for (int i = int(s.recs.size()) - 1; i >= 0; --i) {
                    p.recs.push_back(i);
                }
                for (std::size_t i = 0; i < s.meths.size(); ++i) {
                    p.meths.insert(p.meths.begin(), int(i));
                    std::vector<int> d;
                    for (int k = int(s.meths[i].defs.size()) - 1; k >= 0; --k) {
                        d.push_back(k);
                    }
                    p.defs.push_back(d);
                }
                r.perms.push_back(p);
            }
            out.push_back(to_json(r));
        }
        return out;
    };
    return p;
}

// ---------------------------------------------------------------------------
// C08: presentations of the inheritance graph

inline Outcome run_presentation_case(const SpecCase& c) {
    Outcome o;
    o.hash = hash_case(c);
    Config& cfg = need_config(c.cfg);
    const Spec& s = c.spec;
    Spec canon = s;
    canonical_presentation(canon);
    Obs ref;
    if (!observe_spec(cfg, canon, o, ref)) {
        return o;
    }
    {
        World w(cfg, s);
        w.register_all();
        UpdateOutcome up;
        if (!do_update(w, o, up)) {
            return o;
        }
        Obs obs = observe(w);
        auto d = diff_obs(ref, obs);
        if (!d.empty()) {
            o.fail("presentation: the same graph registered differently "
                   "dispatches differently: " + d);
        }
        // against the model as well, and slot injectivity / bounds
        DispatchStats ds;
        if (o.ok) {
            check_dispatch(w, o, ds, false);
        }
        NextStats ns;
        if (o.ok) {
            check_next(w, o, ns);
        }
        WalkStats ws;
        if (o.ok) {
            check_slots_and_walk(w, o, up, ws);
        }
        // acceptance relation as inferred by the compiler
        if (o.ok && up.comp) {
            // map compiler classes back to spec classes through ids
            std::map<const void*, int> cls_of;
            for (auto& cc : up.comp->classes) {
                for (int k = 0; k < s.n; ++k) {
                    if (!cc.type_ids.empty() &&
                        cc.type_ids[0] == w.objs[k].id) {
                        cls_of[&cc] = k;
                    }
                }
            }
            for (auto& cc : up.comp->classes) {
                auto it = cls_of.find(&cc);
                if (it == cls_of.end()) {
                    continue;
                }
                std::uint64_t accepted = 0;
                for (auto d : cc.covariant_classes) {
                    auto jt = cls_of.find(d);
                    if (jt != cls_of.end()) {
                        accepted |= 1ull << jt->second;
                    }
                }
                if (accepted != s.desc[it->second]) {
                    o.fail("acceptance: classes accepted where class " +
                           std::to_string(it->second) +
                           " is expected differ from its derived classes");
                }
            }
        }
        if (o.ok) {
            ReportModel rm = model_report(s);
            check_report(w, o, up, rm);
        }
    }
    // non-trivial: the presentation omits an indirect base of a class that
    // has >= 2 direct bases
    bool omits = false, incomplete = false;
    for (int k = 0; k < s.n; ++k) {
        std::uint64_t listed = 0;
        for (auto& r : s.recs) {
            if (r.cls == k) {
                for (int b : r.bases) {
                    listed |= 1ull << b;
                }
            }
        }
        std::uint64_t proper = s.anc[k] & ~(1ull << k);
        if ((listed & proper) != proper) {
            incomplete = true;
            if (s.bases[k].size() >= 2) {
                omits = true;
            }
        }
    }
    o.nontrivial = omits;
    common_classes(s, o);
    if (incomplete) {
        o.classes.push_back("incomplete_base_list");
    }
    if (s.recs.size() > std::size_t(s.n)) {
        o.classes.push_back("several_records_per_class");
    }
    return o;
}

Property prop_C08(const std::string& variant) {
    auto gen = [variant](Choice& ch, int size) {
        SpecCase c;
        c.cfg = pick_cfg(ch, {"chk_vec", "nohash_vec", "map"}, variant);
        GenOpts o;
        o.id_schemes = ids_for(need_config(c.cfg));
        o.lattice_bias = true;
        o.vp_anywhere = true;
        o.canonical_presentation = false;
        o.max_methods = 5;
        o.many_methods = true;
        o.max_defs = 8;
        c.spec = gen_spec(ch, o, size);
        return c;
    };
    return make_spec_property("C08", variant, gen, run_presentation_case,
                              false);
}

} // namespace e1
