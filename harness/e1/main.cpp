// Engine E1 worker: properties over synthetic registries.
#include "checks.hpp"
#include "props.hpp"

namespace e1 {

std::vector<BodyRec> g_log;
int g_error_deliveries;
type_id g_deferred_ids[MAXCLS * 8];

std::vector<Config*>& configs() {
    static std::vector<Config*> v;
    return v;
}

template<int... Is>
static const std::type_info* const* tag_infos(std::integer_sequence<int, Is...>) {
    static const std::type_info* const t[] = {&typeid(Tag<Is>)...};
    return t;
}

type_id typeinfo_id(int i) {
    return reinterpret_cast<type_id>(
        tag_infos(std::make_integer_sequence<int, 64>())[i & 63]);
}

template<int K>
static type_id deferred_k() {
    return g_deferred_ids[K];
}

template<int... Is>
static deferred_fn const* deferred_table(std::integer_sequence<int, Is...>) {
    static const deferred_fn t[] = {&deferred_k<Is>...};
    return t;
}

deferred_fn deferred_function(int slot) {
    return deferred_table(
        std::make_integer_sequence<int, MAXCLS * 8>())[slot];
}

} // namespace e1

int main(int argc, char** argv) {
    using namespace e1;
    if (vf::hasflag(argc, argv, "--list-configs")) {
        for (auto c : configs()) {
            printf("%s\n", c->name.c_str());
        }
        return 0;
    }
    // self-check: shape table mirrors the pool
    for (auto c : configs()) {
        for (std::size_t i = 0; i < shape_table().size(); ++i) {
            if (!find_method(*c, int(i), 0) || !find_method(*c, int(i), 1)) {
                fprintf(stderr, "pool of %s lacks shape %s\n", c->name.c_str(),
                        shape_table()[i].str);
                return 2;
            }
        }
    }
    return vf::worker_main(argc, argv, &e1::lookup_property);
}
