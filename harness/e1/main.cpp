// Engine E1 worker: properties over synthetic registries.
#include "checks.hpp"
#include "props.hpp"

namespace e1 {

std::vector<BodyRec> g_log;
int g_error_deliveries;
type_id g_deferred_ids[MAXCLS * 8];

std::vector<Config*>& configs() {
    static std::vector<Config*> v;
    return v;
}

template<int... Is>
static const std::type_info* const* tag_infos(std::integer_sequence<int, Is...>) {
    static const std::type_info* const t[] = {&typeid(Tag<Is>)...};
    return t;
}

type_id typeinfo_id(int i) {
    return reinterpret_cast<type_id>(
        tag_infos(std::make_integer_sequence<int, 64>())[i & 63]);
}

template<int K>
static type_id deferred_k() {
    return g_deferred_ids[K];
}

template<int... Is>
static deferred_fn const* deferred_table(std::integer_sequence<int, Is...>) {
    static const deferred_fn t[] = {&deferred_k<Is>...};
    return t;
}

deferred_fn deferred_function(int slot) {
    return deferred_table(
        std::make_integer_sequence<int, MAXCLS * 8>())[slot];
}

std::optional<vf::Property>
lookup_property(const std::string& id, const std::string& variant) {
    static const std::map<
        std::string, vf::Property (*)(const std::string&)>
        table = {
            {"C01", &prop_C01}, {"C02", &prop_C02}, {"C03", &prop_C03},
            {"C04", &prop_C04}, {"C06", &prop_C06}, {"C07", &prop_C07}, {"C08", &prop_C08}, {"C10", &prop_C10}, {"C12", &prop_C12}, {"C13", &prop_C13}, {"C14", &prop_C14}, {"C15", &prop_C15},
            {"C17", &prop_C17},
        };
    auto it = table.find(id);
    if (it == table.end()) {
        return std::nullopt;
    }
    return it->second(variant);
}

} // namespace e1

int main(int argc, char** argv) {
    using namespace e1;
    if (vf::hasflag(argc, argv, "--list-configs")) {
        for (auto c : configs()) {
            printf("%s\n", c->name.c_str());
        }
        return 0;
    }
    // self-check: shape table mirrors the pool
    for (auto c : configs()) {
        for (std::size_t i = 0; i < shape_table().size(); ++i) {
            if (!find_method(*c, int(i), 0) || !find_method(*c, int(i), 1)) {
                fprintf(stderr, "pool of %s lacks shape %s\n", c->name.c_str(),
                        shape_table()[i].str);
                return 2;
            }
        }
    }
    int rc = vf::worker_main(argc, argv, &e1::lookup_property);
    // the pool's static method objects were detached from their catalogs:
    // their destructors must not run
    fflush(nullptr);
    _exit(rc);
}
