// RegistrySpec: the abstract registry every E1 property is generated from,
// its generators, JSON form, canonical hash, and the reference model
// (DESIGN.md section 3), which never looks at slots, groups, masks or tables.
#ifndef VERIF_E1_SPEC_HPP
#define VERIF_E1_SPEC_HPP

#include "../common/worker.hpp"

#include <algorithm>
#include <cstdint>
#include <string>
#include <vector>

namespace e1 {

using vf::Choice;
using vf::json;

constexpr int MAXCLS = 48;

struct ShapeInfo {
    const char* str;
    int arity;
    int nparams;
};

// must mirror all_shapes in pool.hpp (checked at start-up)
inline const std::vector<ShapeInfo>& shape_table() {
    static const std::vector<ShapeInfo> t = [] {
        const char* s[] = {"V",     "NV",   "VN",   "NVN",    "VV",  "VNV",
                           "NVV",   "VVN",  "NVNVN", "VVV",   "VNVNV", "NVVV",
                           "VVVV",  "VNVVNV", "P",   "PP",    "PNP", "VP"};
        std::vector<ShapeInfo> v;
        for (auto str : s) {
            int a = 0, n = 0;
            for (const char* p = str; *p; ++p, ++n) {
                a += *p != 'N';
            }
            v.push_back({str, a, n});
        }
        return v;
    }();
    return t;
}

struct Rec {
    int cls = 0;
    std::vector<int> bases; // listed entries: class indices; may contain cls
                            // itself and duplicates
    int alias = 0;          // projection: which alias id names the class here
    std::vector<int> base_alias; // parallel to bases (empty = all 0)
};

struct DefSpec {
    std::vector<int> cls; // one class per virtual position
    int fn = 0;           // which pool function (unique within a method)
    std::vector<int> alias; // projection: alias per position (empty = 0)
};

struct MethSpec {
    int shape = 0;
    int key = 0;
    std::vector<int> vp; // class per virtual position
    std::vector<DefSpec> defs; // in registration order
    std::vector<int> vp_alias; // projection: alias per position (empty = 0)
};

struct Spec {
    int n = 0;
    std::vector<std::vector<int>> bases; // direct bases (transitive reduction)
    std::vector<char> abstract_;
    std::string id_scheme = "small"; // small | typeinfo | strided | highbits |
                                     // random64
    std::vector<std::uint64_t> id_param; // per class; meaning per scheme
    std::uint64_t id_aux = 0;            // scheme parameter (stride power)
    std::vector<Rec> recs;               // presentation, registration order
    std::vector<MethSpec> meths;         // registration order
    std::string graph_shape;             // provenance only

    // derived
    std::vector<std::uint64_t> anc;  // reflexive-transitive bases, bitmask
    std::vector<std::uint64_t> desc; // reflexive-transitive derived
    void derive() {
        anc.assign(n, 0);
        desc.assign(n, 0);
        for (int c = 0; c < n; ++c) {
            anc[c] = 1ull << c;
            for (int b : bases[c]) {
                anc[c] |= anc[b];
            }
        }
        for (int c = 0; c < n; ++c) {
            for (int b = 0; b < n; ++b) {
                if (anc[c] >> b & 1) {
                    desc[b] |= 1ull << c;
                }
            }
        }
    }
    bool isa(int d, int b) const {
        return anc[d] >> b & 1;
    }
};

inline std::vector<int> bits(std::uint64_t m) {
    std::vector<int> v;
    for (int i = 0; m; ++i, m >>= 1) {
        if (m & 1) {
            v.push_back(i);
        }
    }
    return v;
}

// ---------------------------------------------------------------------------
// Reference model

enum Kind { K_DEF, K_NONE, K_AMBIG };

struct Sel {
    Kind kind;
    int def; // index into MethSpec::defs when K_DEF
};

inline bool applicable(const Spec& s, const DefSpec& d, const int* t) {
    for (std::size_t i = 0; i < d.cls.size(); ++i) {
        if (!s.isa(t[i], d.cls[i])) {
            return false;
        }
    }
    return true;
}

// a is more specific than b: at no position a proper base of b's class, at
// one position at least a proper derived class
inline bool more_specific(const Spec& s, const DefSpec& a, const DefSpec& b) {
    bool some = false;
    for (std::size_t i = 0; i < a.cls.size(); ++i) {
        if (a.cls[i] == b.cls[i]) {
            continue;
        }
        if (s.isa(b.cls[i], a.cls[i])) {
            return false; // a_i proper base of b_i
        }
        if (s.isa(a.cls[i], b.cls[i])) {
            some = true;
        }
    }
    return some;
}

inline Sel select(const Spec& s, const MethSpec& m, const std::vector<int>& S) {
    if (S.empty()) {
        return {K_NONE, -1};
    }
    for (int d : S) {
        bool dominates = true;
        for (int e : S) {
            if (e != d && !more_specific(s, m.defs[d], m.defs[e])) {
                dominates = false;
                break;
            }
        }
        if (dominates) {
            return {K_DEF, d};
        }
    }
    return {K_AMBIG, -1};
}

inline Sel dispatch(const Spec& s, const MethSpec& m, const int* t) {
    std::vector<int> S;
    for (std::size_t d = 0; d < m.defs.size(); ++d) {
        if (applicable(s, m.defs[d], t)) {
            S.push_back(int(d));
        }
    }
    return select(s, m, S);
}

inline int count_applicable(const Spec& s, const MethSpec& m, const int* t) {
    int k = 0;
    for (auto& d : m.defs) {
        k += applicable(s, d, t);
    }
    return k;
}

// strictly more general than D: same-or-base everywhere, different tuple
inline std::vector<int> more_general(const Spec& s, const MethSpec& m, int D) {
    std::vector<int> S;
    for (std::size_t e = 0; e < m.defs.size(); ++e) {
        if (int(e) == D || m.defs[e].cls == m.defs[D].cls) {
            continue;
        }
        bool all = true;
        for (std::size_t i = 0; i < m.defs[D].cls.size(); ++i) {
            all = all && s.isa(m.defs[D].cls[i], m.defs[e].cls[i]);
        }
        if (all) {
            S.push_back(int(e));
        }
    }
    return S;
}

inline Sel next_of(const Spec& s, const MethSpec& m, int D) {
    return select(s, m, more_general(s, m, D));
}

// Enumerates the legal argument tuples of a method (classes isa the
// parameter classes).  When there are more than `cap`, a deterministic
// stride sample of `cap` of them.
struct Tuples {
    std::vector<std::vector<int>> dom;
    std::uint64_t total = 1, count = 0, step = 1, j = 0;
    std::vector<int> t;
    Tuples(const Spec& s, const MethSpec& m, std::uint64_t cap = 3000) {
        for (int c : m.vp) {
            dom.push_back(bits(s.desc[c]));
            total *= dom.back().size();
        }
        t.resize(m.vp.size());
        count = std::min(total, cap);
        if (total > cap) {
            static const std::uint64_t primes[] = {1000003, 999983, 7919,
                                                   104729};
            for (auto p : primes) {
                if (total % p != 0) {
                    step = p;
                    break;
                }
            }
        }
    }
    bool next() {
        if (j >= count) {
            return false;
        }
        std::uint64_t idx = (j * step) % total;
        ++j;
        for (std::size_t i = 0; i < dom.size(); ++i) {
            t[i] = dom[i][idx % dom[i].size()];
            idx /= dom[i].size();
        }
        return true;
    }
    bool sampled() const {
        return total > count;
    }
};

// ---------------------------------------------------------------------------
// JSON

inline json to_json(const Spec& s) {
    json j;
    j["n"] = s.n;
    j["bases"] = s.bases;
    j["abstract"] = std::vector<int>(s.abstract_.begin(), s.abstract_.end());
    j["id_scheme"] = s.id_scheme;
    j["id_param"] = s.id_param;
    j["id_aux"] = s.id_aux;
    j["graph_shape"] = s.graph_shape;
    j["recs"] = json::array();
    for (auto& r : s.recs) {
        json jr = {{"cls", r.cls}, {"bases", r.bases}};
        if (r.alias) {
            jr["alias"] = r.alias;
        }
        if (!r.base_alias.empty()) {
            jr["base_alias"] = r.base_alias;
        }
        j["recs"].push_back(jr);
    }
    j["meths"] = json::array();
    for (auto& m : s.meths) {
        json jm = {{"shape", shape_table()[m.shape].str},
                   {"key", m.key},
                   {"vp", m.vp},
                   {"defs", json::array()}};
        for (auto& d : m.defs) {
            json jd = {{"cls", d.cls}, {"fn", d.fn}};
            if (!d.alias.empty()) {
                jd["alias"] = d.alias;
            }
            jm["defs"].push_back(jd);
        }
        if (!m.vp_alias.empty()) {
            jm["vp_alias"] = m.vp_alias;
        }
        j["meths"].push_back(jm);
    }
    return j;
}

inline int shape_index(const std::string& str) {
    auto& t = shape_table();
    for (std::size_t i = 0; i < t.size(); ++i) {
        if (str == t[i].str) {
            return int(i);
        }
    }
    throw std::runtime_error("unknown shape " + str);
}

inline Spec spec_from_json(const json& j) {
    Spec s;
    s.n = j.at("n");
    s.bases = j.at("bases").get<std::vector<std::vector<int>>>();
    for (int a : j.at("abstract")) {
        s.abstract_.push_back(char(a));
    }
    s.id_scheme = j.at("id_scheme");
    s.id_param = j.at("id_param").get<std::vector<std::uint64_t>>();
    s.id_aux = j.value("id_aux", std::uint64_t(0));
    s.graph_shape = j.value("graph_shape", "");
    for (auto& jr : j.at("recs")) {
        Rec r;
        r.cls = jr.at("cls");
        r.bases = jr.at("bases").get<std::vector<int>>();
        r.alias = jr.value("alias", 0);
        if (jr.contains("base_alias")) {
            r.base_alias = jr.at("base_alias").get<std::vector<int>>();
        }
        s.recs.push_back(r);
    }
    for (auto& jm : j.at("meths")) {
        MethSpec m;
        m.shape = shape_index(jm.at("shape"));
        m.key = jm.at("key");
        m.vp = jm.at("vp").get<std::vector<int>>();
        if (jm.contains("vp_alias")) {
            m.vp_alias = jm.at("vp_alias").get<std::vector<int>>();
        }
        for (auto& jd : jm.at("defs")) {
            DefSpec d;
            d.cls = jd.at("cls").get<std::vector<int>>();
            d.fn = jd.at("fn");
            if (jd.contains("alias")) {
                d.alias = jd.at("alias").get<std::vector<int>>();
            }
            m.defs.push_back(d);
        }
        s.meths.push_back(m);
    }
    s.derive();
    return s;
}

inline void hash_spec(vf::Fnv& h, const Spec& s) {
    h.add(s.n);
    for (auto& b : s.bases) {
        h.add(b.size());
        for (int x : b) {
            h.add(x);
        }
    }
    for (char a : s.abstract_) {
        h.add(a);
    }
    h.add(s.id_scheme);
    h.add(s.id_aux);
    for (auto p : s.id_param) {
        h.add(p);
    }
    for (auto& r : s.recs) {
        h.add(r.cls);
        h.add(r.alias);
        h.add(r.bases.size());
        for (int x : r.bases) {
            h.add(x);
        }
        for (int x : r.base_alias) {
            h.add(x);
        }
    }
    for (auto& m : s.meths) {
        h.add(m.shape);
        h.add(m.key);
        for (int x : m.vp) {
            h.add(x);
        }
        for (int x : m.vp_alias) {
            h.add(x);
        }
        h.add(m.defs.size());
        for (auto& d : m.defs) {
            h.add(d.fn);
            for (int x : d.cls) {
                h.add(x);
            }
            for (int x : d.alias) {
                h.add(x);
            }
        }
    }
}

// ---------------------------------------------------------------------------
// Generators

struct GenOpts {
    int max_classes = 10;
    int max_methods = 4;
    int max_defs = 12;
    bool lattice_bias = false;     // C04/C08: prefer multiple inheritance
    bool allow_dup_defs = false;   // C02/C17: duplicated definition tuples
    bool abstract_flags = false;   // C17
    bool canonical_presentation = true;
    std::vector<int> shapes;       // allowed shape indices (empty = all)
    std::vector<std::string> id_schemes = {"small"};
    bool vp_anywhere = false;      // method parameters anywhere in the lattice
    int min_arity = 1, max_arity = 4;
    bool gappy = false; // prefer definition sets that leave NONE tuples
    bool big_pool = false; // now and then a method with up to 96 definitions
    bool many_methods = false; // now and then every method of the pool at once
                               // (more than 64 v-table slots in one class)
};

inline void transitive_reduce(Spec& s) {
    // classes are in topological order; bases[c] subset of 0..c-1
    std::vector<std::uint64_t> anc(s.n, 0);
    for (int c = 0; c < s.n; ++c) {
        auto& b = s.bases[c];
        std::sort(b.begin(), b.end());
        b.erase(std::unique(b.begin(), b.end()), b.end());
        std::vector<int> keep;
        for (int x : b) {
            bool redundant = false;
            for (int y : b) {
                if (y != x && (anc[y] >> x & 1)) {
                    redundant = true;
                }
            }
            if (!redundant) {
                keep.push_back(x);
            }
        }
        b = keep;
        anc[c] = 1ull << c;
        for (int x : b) {
            anc[c] |= anc[x];
        }
    }
}

inline void gen_graph(Choice& ch, Spec& s, const GenOpts& o, int size) {
    static const char* names[] = {"tree",    "forest", "diamonds", "wide",
                                  "layered", "mixed",  "chain"};
    // weighted choice; index 0 (a tree) is the simplest
    static const int weighted[] = {0, 1, 6, 2, 2, 3, 3, 3, 4, 4, 5, 5};
    int shape = weighted[ch.draw(12)];
    if (o.lattice_bias && (shape == 0 || shape == 1 || shape == 6) &&
        ch.chance(3, 4)) {
        shape = 2 + ch.draw(4);
    }
    s.graph_shape = names[shape];
    // sizes above 60 only occur in the thorough tier: registries up to twice
    // as large there (properties that fix max_classes explicitly keep it)
    int cap = o.max_classes == 10 && size > 60 ? 10 + (size - 60) / 3
                                                : o.max_classes;
    int maxn = std::max(1, std::min(cap, 2 + size / 3));
    int n = 1 + ch.draw(maxn);
    s.n = n;
    s.bases.assign(n, {});
    auto pick_below = [&](int c) { return int(ch.draw(c)); };
    switch (shape) {
    case 0: // tree
        for (int c = 1; c < n; ++c) {
            s.bases[c] = {pick_below(c)};
        }
        break;
    case 1: // forest
        for (int c = 1; c < n; ++c) {
            if (!ch.chance(1, 4)) {
                s.bases[c] = {pick_below(c)};
            }
        }
        break;
    case 2: // diamonds
        for (int c = 1; c < n; ++c) {
            int k = 1 + ch.draw(2);
            for (int i = 0; i < k; ++i) {
                s.bases[c].push_back(pick_below(c));
            }
        }
        break;
    case 3: { // wide: optional root, k mids, bottoms deriving from many mids
        int has_root = ch.draw(2);
        int k = n <= 2 ? n - has_root : 2 + ch.draw(std::max(1, std::min(n - has_root - 1, 6) - 1));
        k = std::max(0, std::min(k, n - has_root));
        int first_mid = has_root, first_bottom = has_root + k;
        for (int c = first_mid; c < first_bottom; ++c) {
            if (has_root) {
                s.bases[c] = {0};
            }
            // a few chains among the mids
            if (c > first_mid && ch.chance(1, 5)) {
                s.bases[c].push_back(first_mid + ch.draw(c - first_mid));
            }
        }
        for (int c = first_bottom; c < n; ++c) {
            int nb = k <= 1 ? k : 2 + ch.draw(std::min(k, 6) - 1);
            for (int i = 0; i < nb; ++i) {
                s.bases[c].push_back(first_mid + ch.draw(k));
            }
            if (c > first_bottom && ch.chance(1, 4)) {
                s.bases[c].push_back(first_bottom + ch.draw(c - first_bottom));
            }
            if (s.bases[c].empty() && has_root) {
                s.bases[c] = {0};
            }
        }
        break;
    }
    case 4: { // layered dense
        int w = 1 + ch.draw(4);
        for (int c = w; c < n; ++c) {
            int layer_start = (c / w - 1) * w;
            int nb = 1 + ch.draw(std::min(w, 4));
            for (int i = 0; i < nb; ++i) {
                s.bases[c].push_back(layer_start + ch.draw(w));
            }
        }
        break;
    }
    case 5: { // mixed: a tree part and a lattice part, maybe sharing
              // descendants
        int split = 1 + ch.draw(std::max(1, n - 1));
        for (int c = 1; c < split; ++c) {
            s.bases[c] = {pick_below(c)};
        }
        for (int c = split + 1; c < n; ++c) {
            int k = 1 + ch.draw(3);
            for (int i = 0; i < k; ++i) {
                s.bases[c].push_back(split + ch.draw(c - split));
            }
            if (ch.chance(1, 5)) {
                s.bases[c].push_back(ch.draw(split)); // shared descendant
            }
        }
        break;
    }
    case 6: // chain
        for (int c = 1; c < n; ++c) {
            s.bases[c] = {c - 1};
        }
        break;
    }
    transitive_reduce(s);
    s.abstract_.assign(n, 0);
    if (o.abstract_flags) {
        for (int c = 0; c < n; ++c) {
            // bias: roots and middles abstract
            bool leaf = true;
            for (int d = c + 1; d < n; ++d) {
                for (int b : s.bases[d]) {
                    leaf = leaf && b != c;
                }
            }
            s.abstract_[c] = leaf ? ch.chance(1, 8) : ch.chance(1, 2);
        }
    }
    s.derive();
}

inline void gen_ids(Choice& ch, Spec& s, const GenOpts& o) {
    s.id_scheme = o.id_schemes[ch.draw(o.id_schemes.size())];
    s.id_param.resize(s.n);
    s.id_aux = s.id_scheme == "strided" ? ch.draw(21) : 0;
    std::vector<std::uint64_t> used;
    for (int c = 0; c < s.n; ++c) {
        std::uint64_t p;
        int guard = 0;
        do {
            if (s.id_scheme == "small") {
                p = 1 + ch.draw(200); // actual id
            } else if (s.id_scheme == "typeinfo") {
                p = ch.draw(64); // Tag index
            } else if (s.id_scheme == "strided") {
                p = 1 + ch.draw(4096); // multiplied by a stride kept in [0]
            } else if (s.id_scheme == "highbits") {
                p = 1 + ch.draw(0xffff);
            } else {
                p = ch.draw64() | 1;
                if (p == ~std::uint64_t(0)) {
                    // invalid_type, the library's "no id" value (the empty
                    // mark of the hash tables), is not an id a class can have
                    p -= 2;
                }
            }
            if (++guard > 50) {
                // a choice source that ran dry keeps drawing 0: take the
                // smallest value of the scheme that is still free
                for (p = s.id_scheme == "typeinfo" ? 0 : 1;
                     std::find(used.begin(), used.end(), p) != used.end();
                     ++p) {
                }
            }
        } while (std::find(used.begin(), used.end(), p) != used.end());
        used.push_back(p);
        s.id_param[c] = p;
    }
}

// The canonical presentation: one record per class listing the class itself
// and all its direct and indirect bases — what use_classes<all...> produces.
inline void canonical_presentation(Spec& s) {
    s.recs.clear();
    for (int c = 0; c < s.n; ++c) {
        Rec r;
        r.cls = c;
        r.bases = bits(s.anc[c]); // includes c itself
        s.recs.push_back(r);
    }
}

// A random legal presentation (C08): per class 1..3 records; each record
// lists any subset of anc(c), optionally c itself, optionally duplicated
// entries; the union over a class's records covers its direct bases.
inline void random_presentation(Choice& ch, Spec& s) {
    s.recs.clear();
    for (int c = 0; c < s.n; ++c) {
        int nrec = 1 + ch.draw(3);
        std::vector<Rec> rs(nrec);
        std::vector<int> proper;
        for (int b : bits(s.anc[c])) {
            if (b != c) {
                proper.push_back(b);
            }
        }
        int style = ch.draw(4); // 0 complete, 1 direct-only, 2 random, 3 mix
        for (int i = 0; i < nrec; ++i) {
            rs[i].cls = c;
            if (ch.chance(3, 4)) {
                rs[i].bases.push_back(c);
            }
        }
        for (int b : proper) {
            bool direct = std::find(s.bases[c].begin(), s.bases[c].end(), b) !=
                s.bases[c].end();
            bool listed = false;
            for (int i = 0; i < nrec; ++i) {
                bool put;
                switch (style) {
                case 0:
                    put = i == 0;
                    break;
                case 1:
                    put = direct && i == 0;
                    break;
                default:
                    put = ch.chance(1, 2);
                }
                if (put) {
                    rs[i].bases.push_back(b);
                    listed = true;
                    if (style == 3 && ch.chance(1, 6)) {
                        rs[i].bases.push_back(b); // duplicate entry
                    }
                }
            }
            if (direct && !listed) {
                rs[ch.draw(nrec)].bases.push_back(b);
            }
        }
        for (auto& r : rs) {
            // entry order inside a record is arbitrary too
            for (std::size_t i = r.bases.size(); i > 1; --i) {
                std::swap(r.bases[i - 1], r.bases[ch.draw(i)]);
            }
            s.recs.push_back(r);
        }
    }
    // record order: arbitrary (Lehmer-coded picks, 0 = identity)
    for (std::size_t i = 0; i + 1 < s.recs.size(); ++i) {
        std::size_t j = i + ch.draw(s.recs.size() - i);
        if (j != i) {
            Rec tmp = s.recs[j];
            s.recs.erase(s.recs.begin() + j);
            s.recs.insert(s.recs.begin() + i, tmp);
        }
    }
}

inline int pick_biased_class(Choice& ch, const Spec& s, bool anywhere) {
    // bias toward classes with many descendants
    int a = ch.draw(s.n), b = ch.draw(s.n);
    if (anywhere && ch.chance(1, 3)) {
        return a;
    }
    return __builtin_popcountll(s.desc[a]) >= __builtin_popcountll(s.desc[b])
        ? a
        : b;
}

inline int pick_from_mask(Choice& ch, std::uint64_t mask) {
    auto v = bits(mask);
    return v[ch.draw(v.size())];
}

inline void gen_methods(Choice& ch, Spec& s, const GenOpts& o, int size) {
    auto& st = shape_table();
    std::vector<int> allowed;
    for (std::size_t i = 0; i < st.size(); ++i) {
        bool in = o.shapes.empty() ||
            std::find(o.shapes.begin(), o.shapes.end(), int(i)) !=
                o.shapes.end();
        if (in && st[i].arity >= o.min_arity && st[i].arity <= o.max_arity) {
            allowed.push_back(int(i));
        }
    }
    int nm = 1 + ch.draw(std::max(1, std::min(o.max_methods, 1 + size / 12)));
    bool all_methods = o.many_methods && size >= 20 && ch.chance(1, 16);
    if (all_methods) {
        nm = int(allowed.size()) * 2;
    }
    std::vector<std::pair<int, int>> used;
    for (int mi = 0; mi < nm; ++mi) {
        MethSpec m;
        int tries = 0;
        do {
            m.shape = allowed[ch.draw(allowed.size())];
            m.key = ch.draw(2);
            if (all_methods) {
                m.shape = allowed[mi / 2];
                m.key = mi % 2;
            }
            if (++tries > 8) {
                break;
            }
        } while (std::find(used.begin(), used.end(),
                           std::make_pair(m.shape, m.key)) != used.end());
        if (std::find(used.begin(), used.end(),
                      std::make_pair(m.shape, m.key)) != used.end()) {
            continue;
        }
        // now and then: the big-pool twin (VV or VVV, key 3) with many
        // definitions
        bool big = false;
        if (o.big_pool && s.n >= 9 && ch.chance(1, 8)) {
            int vv = shape_index("VV"), vvv = shape_index("VVV");
            int sh = ch.chance(1, 3) ? vvv : vv;
            bool allowed_sh = o.shapes.empty() ||
                std::find(o.shapes.begin(), o.shapes.end(), sh) !=
                    o.shapes.end();
            if (allowed_sh && st[sh].arity >= o.min_arity &&
                st[sh].arity <= o.max_arity &&
                std::find(used.begin(), used.end(),
                          std::make_pair(sh, 3)) == used.end()) {
                m.shape = sh;
                m.key = 3;
                big = true;
            }
        }
        used.push_back({m.shape, m.key});
        int arity = st[m.shape].arity;
        // keep the tuple space enumerable: shrink parameter classes when the
        // product of descendants is very large
        std::uint64_t total = 1;
        for (int i = 0; i < arity; ++i) {
            int c = pick_biased_class(ch, s, o.vp_anywhere);
            if (big) {
                // the class with most descendants: enough distinct tuples
                for (int k = 0; k < s.n; ++k) {
                    if (__builtin_popcountll(s.desc[k]) >
                        __builtin_popcountll(s.desc[c])) {
                        c = k;
                    }
                }
            }
            m.vp.push_back(c);
            total *= __builtin_popcountll(s.desc[c]);
        }
        // definitions
        int maxd = std::min({o.max_defs, 16, 2 + size / 6});
        int nd = ch.draw(maxd + 1);
        if (all_methods) {
            nd = ch.draw(3);
        }
        if (big) {
            nd = 50 + ch.draw(47); // 50..96, on both sides of 64
        }
        std::vector<int> focus(arity);
        for (int i = 0; i < arity; ++i) {
            int c = pick_from_mask(ch, s.desc[m.vp[i]]);
            focus[i] = pick_from_mask(ch, s.desc[c]); // go deep
        }
        std::vector<int> fns;
        for (int i = 0; i < (big ? 96 : 16); ++i) {
            fns.push_back(i);
        }
        for (int di = 0; di < nd; ++di) {
            DefSpec d;
            int mode = ch.draw(9); // 0..4 focus, 5 near-duplicate, 6..7 free,
                                   // 8 cross (unrelated bases at one position)
            if (big && mode <= 4) {
                mode = 6; // many distinct tuples are needed
            }
            if (mode == 8 && arity >= 2 && !m.defs.empty()) {
                // Take an existing definition and replace, at one position,
                // its class by one that is unrelated to it but shares a
                // descendant (so both stay applicable together), and at
                // another position move one step along the lattice: this is
                // what makes "more specific" non-transitive.
                d = m.defs[ch.draw(m.defs.size())];
                int p = ch.draw(arity);
                int q = (p + 1 + ch.draw(arity - 1)) % arity;
                std::vector<int> unrelated;
                for (int c : bits(s.desc[m.vp[p]])) {
                    if (!s.isa(c, d.cls[p]) && !s.isa(d.cls[p], c) &&
                        (s.desc[c] & s.desc[d.cls[p]])) {
                        unrelated.push_back(c);
                    }
                }
                if (!unrelated.empty()) {
                    d.cls[p] = unrelated[ch.draw(unrelated.size())];
                }
                std::uint64_t rel =
                    (s.anc[d.cls[q]] & s.desc[m.vp[q]]) | s.desc[d.cls[q]];
                d.cls[q] = pick_from_mask(ch, rel);
            } else if (mode == 5 && !m.defs.empty()) {
                d = m.defs[ch.draw(m.defs.size())];
                int pos = ch.draw(arity);
                int c = d.cls[pos];
                if (ch.chance(1, 2)) {
                    // one step up (toward the parameter class)
                    std::vector<int> ups;
                    for (int b : s.bases[c]) {
                        if (s.isa(b, m.vp[pos])) {
                            ups.push_back(b);
                        }
                    }
                    if (!ups.empty()) {
                        d.cls[pos] = ups[ch.draw(ups.size())];
                    }
                } else {
                    std::vector<int> downs;
                    for (int e = c + 1; e < s.n; ++e) {
                        if (std::find(s.bases[e].begin(), s.bases[e].end(),
                                      c) != s.bases[e].end()) {
                            downs.push_back(e);
                        }
                    }
                    if (!downs.empty()) {
                        d.cls[pos] = downs[ch.draw(downs.size())];
                    }
                }
            } else {
                for (int i = 0; i < arity; ++i) {
                    std::uint64_t mask;
                    if (mode <= 4) {
                        // ancestors of the focus class below the parameter
                        // class: many definitions applicable at once
                        mask = s.anc[focus[i]] & s.desc[m.vp[i]];
                    } else {
                        mask = s.desc[m.vp[i]];
                    }
                    if (o.gappy && ch.chance(1, 2)) {
                        // avoid the parameter class itself so gaps remain
                        std::uint64_t m2 = mask & ~(1ull << m.vp[i]);
                        if (m2) {
                            mask = m2;
                        }
                    }
                    d.cls.push_back(pick_from_mask(ch, mask));
                }
            }
            bool dup = false;
            for (auto& e : m.defs) {
                dup = dup || e.cls == d.cls;
            }
            if (dup && !(o.allow_dup_defs && ch.chance(1, 2))) {
                continue;
            }
            std::size_t k = ch.draw(fns.size());
            d.fn = fns[k];
            fns.erase(fns.begin() + k);
            m.defs.push_back(d);
        }
        s.meths.push_back(m);
    }
}

// Random permutation drawn with Lehmer-coded picks (0 = identity).
template<class T>
void permute(Choice& ch, std::vector<T>& v) {
    for (std::size_t i = 0; i + 1 < v.size(); ++i) {
        std::size_t j = i + ch.draw(v.size() - i);
        if (j != i) {
            T tmp = v[j];
            v.erase(v.begin() + j);
            v.insert(v.begin() + i, tmp);
        }
    }
}

inline Spec gen_spec(Choice& ch, const GenOpts& o, int size) {
    Spec s;
    gen_graph(ch, s, o, size);
    gen_ids(ch, s, o);
    if (o.canonical_presentation) {
        canonical_presentation(s);
        if (ch.chance(1, 2)) {
            // use_classes<...> keeps the order in which the user listed the
            // classes, which need not put bases first: the records, and the
            // entries of every record, follow one arbitrary listing order
            std::vector<int> order(s.n), pos(s.n);
            for (int c = 0; c < s.n; ++c) {
                order[c] = c;
            }
            permute(ch, order);
            for (int i = 0; i < s.n; ++i) {
                pos[order[i]] = i;
            }
            for (auto& r : s.recs) {
                std::sort(r.bases.begin(), r.bases.end(), [&](int a, int b) {
                    return pos[a] < pos[b];
                });
            }
            std::sort(s.recs.begin(), s.recs.end(),
                      [&](const Rec& a, const Rec& b) {
                          return pos[a.cls] < pos[b.cls];
                      });
        }
    } else {
        random_presentation(ch, s);
    }
    gen_methods(ch, s, o, size);
    return s;
}

// ---------------------------------------------------------------------------
// Structural shrink candidates of a Spec (each strictly simpler).

inline Spec remove_class(const Spec& s, int c) {
    // Removing class c: its derived classes inherit its bases.
    Spec r = s;
    r.anc.clear();
    r.desc.clear();
    auto remap = [&](int x) { return x > c ? x - 1 : x; };
    r.n = s.n - 1;
    r.bases.clear();
    r.abstract_.clear();
    r.id_param.clear();
    for (int d = 0; d < s.n; ++d) {
        if (d == c) {
            continue;
        }
        std::vector<int> b;
        for (int x : s.bases[d]) {
            if (x == c) {
                for (int y : s.bases[c]) {
                    b.push_back(remap(y));
                }
            } else {
                b.push_back(remap(x));
            }
        }
        r.bases.push_back(b);
        r.abstract_.push_back(s.abstract_[d]);
        r.id_param.push_back(s.id_param[d]);
    }
    transitive_reduce(r);
    r.recs.clear();
    for (auto& rec : s.recs) {
        if (rec.cls == c) {
            continue;
        }
        Rec q;
        q.cls = remap(rec.cls);
        q.alias = rec.alias;
        for (std::size_t i = 0; i < rec.bases.size(); ++i) {
            if (rec.bases[i] != c) {
                q.bases.push_back(remap(rec.bases[i]));
                if (!rec.base_alias.empty()) {
                    q.base_alias.push_back(rec.base_alias[i]);
                }
            }
        }
        r.recs.push_back(q);
    }
    r.meths.clear();
    for (auto& m : s.meths) {
        bool uses = std::find(m.vp.begin(), m.vp.end(), c) != m.vp.end();
        if (uses) {
            continue; // the method goes with its parameter class
        }
        MethSpec q = m;
        q.defs.clear();
        for (auto& x : q.vp) {
            x = remap(x);
        }
        for (auto& d : m.defs) {
            if (std::find(d.cls.begin(), d.cls.end(), c) != d.cls.end()) {
                continue;
            }
            DefSpec e = d;
            for (auto& x : e.cls) {
                x = remap(x);
            }
            q.defs.push_back(e);
        }
        r.meths.push_back(q);
    }
    r.derive();
    return r;
}

// Is the presentation still legal (covers direct bases, lists only bases)?
inline bool presentation_legal(const Spec& s) {
    std::vector<std::uint64_t> listed(s.n, 0);
    std::vector<char> has(s.n, 0);
    for (auto& r : s.recs) {
        has[r.cls] = 1;
        for (int b : r.bases) {
            if (!s.isa(r.cls, b)) {
                return false;
            }
            listed[r.cls] |= 1ull << b;
        }
    }
    for (int c = 0; c < s.n; ++c) {
        if (!has[c]) {
            return false;
        }
        for (int b : s.bases[c]) {
            if (!(listed[c] >> b & 1)) {
                return false;
            }
        }
    }
    return true;
}

inline std::vector<Spec> spec_shrinks(
    const Spec& s, bool keep_canonical, bool keep_ids = false) {
    std::vector<Spec> out;
    // drop a method
    for (std::size_t i = 0; i < s.meths.size(); ++i) {
        if (s.meths.size() > 1) {
            Spec r = s;
            r.meths.erase(r.meths.begin() + i);
            out.push_back(r);
        }
    }
    // drop a class (highest first: leaves)
    for (int c = s.n - 1; c >= 0; --c) {
        if (s.n > 1) {
            Spec r = remove_class(s, c);
            if (keep_canonical) {
                canonical_presentation(r);
            }
            if (!r.meths.empty() && presentation_legal(r)) {
                out.push_back(r);
            }
        }
    }
    // drop a definition
    for (std::size_t i = 0; i < s.meths.size(); ++i) {
        for (std::size_t d = 0; d < s.meths[i].defs.size(); ++d) {
            Spec r = s;
            r.meths[i].defs.erase(r.meths[i].defs.begin() + d);
            out.push_back(r);
        }
    }
    // drop an inheritance edge
    for (int c = 0; c < s.n; ++c) {
        for (std::size_t k = 0; k < s.bases[c].size(); ++k) {
            Spec r = s;
            int b = r.bases[c][k];
            r.bases[c].erase(r.bases[c].begin() + k);
            r.derive();
            // definitions and parameters must stay legal
            bool legal = true;
            for (auto& m : r.meths) {
                for (auto& d : m.defs) {
                    for (std::size_t i = 0; i < d.cls.size(); ++i) {
                        legal = legal && r.isa(d.cls[i], m.vp[i]);
                    }
                }
            }
            if (!legal) {
                continue;
            }
            if (keep_canonical) {
                canonical_presentation(r);
            } else {
                for (auto& rec : r.recs) {
                    std::vector<int> nb, na;
                    for (std::size_t i = 0; i < rec.bases.size(); ++i) {
                        if (r.isa(rec.cls, rec.bases[i])) {
                            nb.push_back(rec.bases[i]);
                            if (!rec.base_alias.empty()) {
                                na.push_back(rec.base_alias[i]);
                            }
                        }
                    }
                    rec.bases = nb;
                    rec.base_alias = na;
                }
                (void)b;
            }
            if (presentation_legal(r)) {
                out.push_back(r);
            }
        }
    }
    // move a definition's class one step up
    for (std::size_t i = 0; i < s.meths.size(); ++i) {
        for (std::size_t d = 0; d < s.meths[i].defs.size(); ++d) {
            for (std::size_t p = 0; p < s.meths[i].defs[d].cls.size(); ++p) {
                int c = s.meths[i].defs[d].cls[p];
                for (int b : s.bases[c]) {
                    if (s.isa(b, s.meths[i].vp[p])) {
                        Spec r = s;
                        r.meths[i].defs[d].cls[p] = b;
                        bool dup = false;
                        for (std::size_t e = 0; e < r.meths[i].defs.size();
                             ++e) {
                            dup = dup ||
                                (e != d &&
                                 r.meths[i].defs[e].cls ==
                                     r.meths[i].defs[d].cls);
                        }
                        if (!dup) {
                            out.push_back(r);
                        }
                    }
                }
            }
        }
    }
    if (!keep_canonical) {
        // drop a record / an entry of a record
        for (std::size_t i = 0; i < s.recs.size(); ++i) {
            Spec r = s;
            r.recs.erase(r.recs.begin() + i);
            if (presentation_legal(r)) {
                out.push_back(r);
            }
            for (std::size_t k = 0; k < s.recs[i].bases.size(); ++k) {
                Spec q = s;
                q.recs[i].bases.erase(q.recs[i].bases.begin() + k);
                if (!q.recs[i].base_alias.empty()) {
                    q.recs[i].base_alias.erase(
                        q.recs[i].base_alias.begin() + k);
                }
                if (presentation_legal(q)) {
                    out.push_back(q);
                }
            }
        }
    }
    // simpler shape for a method: not attempted (changes arity)
    // un-abstract
    for (int c = 0; c < s.n; ++c) {
        if (s.abstract_[c]) {
            Spec r = s;
            r.abstract_[c] = 0;
            out.push_back(r);
        }
    }
    // simplest id scheme
    if (s.id_scheme != "small" && !keep_ids) {
        Spec r = s;
        r.id_scheme = "small";
        r.id_aux = 0;
        for (int c = 0; c < s.n; ++c) {
            r.id_param[c] = c + 1;
        }
        out.push_back(r);
    }
    return out;
}

} // namespace e1

#endif
