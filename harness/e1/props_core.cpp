#include "props.hpp"

namespace e1 {

// ---------------------------------------------------------------------------
// C01

Property prop_C01(const std::string& variant) {
    auto gen = [variant](Choice& ch, int size) {
        SpecCase c;
        c.cfg = pick_cfg(ch, kAllCfgs, variant);
        GenOpts o;
        o.id_schemes = ids_for(need_config(c.cfg));
        o.big_pool = true;
        o.abstract_flags = true; // dispatch does not depend on the flag
        c.spec = gen_spec(ch, o, size);
        return c;
    };
    auto run = [](const SpecCase& c) {
        Outcome o;
        o.hash = hash_case(c);
        Config& cfg = need_config(c.cfg);
        World w(cfg, c.spec);
        w.register_all();
        UpdateOutcome up;
        if (!do_update(w, o, up)) {
            return o;
        }
        DispatchStats ds;
        check_dispatch(w, o, ds);
        o.nontrivial = ds.multi_applicable;
        common_classes(c.spec, o);
        o.classes.push_back(cfg.name.c_str());
        if (ds.multi_applicable) {
            o.classes.push_back("tuple_with_2+_applicable");
        }
        if (ds.has_none) {
            o.classes.push_back("NONE_tuple");
        }
        if (ds.has_ambig) {
            o.classes.push_back("AMBIGUOUS_tuple");
        }
        if (has_nontransitive(c.spec)) {
            o.classes.push_back("nontransitive_more_specific");
        }
        return o;
    };
    return make_spec_property("C01", variant, gen, run, true);
}

// ---------------------------------------------------------------------------
// C02

Property prop_C02(const std::string& variant) {
    auto gen = [variant](Choice& ch, int size) {
        SpecCase c;
        c.cfg = pick_cfg(ch, {"chk_vec", "bc_err", "nohash_vec", "map",
                              "fast_vec"},
                         variant);
        GenOpts o;
        o.id_schemes = ids_for(need_config(c.cfg));
        o.allow_dup_defs = true;
        o.gappy = true;
        o.max_defs = 8;
        c.spec = gen_spec(ch, o, size);
        return c;
    };
    auto run = [](const SpecCase& c) {
        Outcome o;
        o.hash = hash_case(c);
        Config& cfg = need_config(c.cfg);
        World w(cfg, c.spec);
        w.register_all();
        UpdateOutcome up;
        if (!do_update(w, o, up)) {
            return o;
        }
        ErrorStats es;
        // fork for roughly one case in eight, decided by the case itself
        int fork_budget = (o.hash % 8) == 0 ? 1 : 0;
        check_errors(w, o, es, 6, fork_budget);
        o.nontrivial = es.error_calls > 0 && es.nonvirtual_or_multi;
        common_classes(c.spec, o);
        o.classes.push_back(cfg.name.c_str());
        if (es.error_calls) {
            o.classes.push_back("has_error_call");
        }
        if (es.forked) {
            o.classes.push_back("forked_handler_returns");
        }
        return o;
    };
    return make_spec_property("C02", variant, gen, run, true);
}

// ---------------------------------------------------------------------------
// C03

Property prop_C03(const std::string& variant) {
    auto gen = [variant](Choice& ch, int size) {
        SpecCase c;
        c.cfg = pick_cfg(ch, {"chk_vec", "fast_vec", "nohash_vec", "map"},
                         variant);
        GenOpts o;
        o.id_schemes = ids_for(need_config(c.cfg));
        // duplicated definition tuples are legal registrations: a duplicate
        // of D is not strictly more general than D
        o.allow_dup_defs = true;
        o.big_pool = true;
        c.spec = gen_spec(ch, o, size);
        return c;
    };
    auto run = [](const SpecCase& c) {
        Outcome o;
        o.hash = hash_case(c);
        Config& cfg = need_config(c.cfg);
        World w(cfg, c.spec);
        w.register_all();
        UpdateOutcome up;
        if (!do_update(w, o, up)) {
            return o;
        }
        NextStats ns;
        check_next(w, o, ns);
        // "every update recomputes it": unregister one definition (chosen by
        // the case's hash), update again, compare with the model of what is
        // left
        std::size_t total_defs = 0;
        for (auto& m : c.spec.meths) {
            total_defs += m.defs.size();
        }
        if (o.ok && total_defs > 0) {
            std::size_t pick = o.hash % total_defs;
            std::vector<std::pair<int, std::vector<int>>> sel;
            Spec reduced = c.spec;
            for (std::size_t m = 0; m < c.spec.meths.size(); ++m) {
                std::vector<int> keep;
                for (std::size_t d = 0; d < c.spec.meths[m].defs.size(); ++d) {
                    if (pick == 0) {
                        w.unregister_def(m, d);
                        reduced.meths[m].defs.erase(
                            reduced.meths[m].defs.begin() + keep.size());
                        pick = total_defs; // never again
                    } else {
                        keep.push_back(int(d));
                        --pick;
                    }
                }
                sel.push_back({int(m), keep});
            }
            UpdateOutcome up2;
            Outcome o2;
            if (do_update(w, o2, up2)) {
                World view(w, reduced, sel);
                NextStats ns2;
                check_next(view, o2, ns2);
                if (!o2.ok) {
                    o.fail("next-after-second-update: after a definition was "
                           "unregistered and update ran again: " + o2.message);
                }
                o.classes.push_back("next_rechecked_after_second_update");
            }
        }
        o.nontrivial = ns.two_general;
        common_classes(c.spec, o);
        if (ns.two_general) {
            o.classes.push_back("def_with_2+_more_general");
        }
        return o;
    };
    return make_spec_property("C03", variant, gen, run, true);
}

// ---------------------------------------------------------------------------
// C04

Property prop_C04(const std::string& variant) {
    auto gen = [variant](Choice& ch, int size) {
        SpecCase c;
        c.cfg = pick_cfg(ch, {"chk_vec", "fast_vec", "nohash_vec", "map"},
                         variant);
        GenOpts o;
        o.id_schemes = ids_for(need_config(c.cfg));
        o.lattice_bias = true;
        o.vp_anywhere = true;
        // classes flagged abstract keep their cells: an object has such a
        // dynamic class while its constructor or destructor runs
        o.abstract_flags = true;
        o.max_methods = 8;
        o.many_methods = true;
        o.max_defs = 6;
        o.canonical_presentation = false;
        c.spec = gen_spec(ch, o, size);
        if (ch.chance(1, 3)) {
            canonical_presentation(c.spec);
        }
        return c;
    };
    auto run = [](const SpecCase& c) {
        Outcome o;
        o.hash = hash_case(c);
        Config& cfg = need_config(c.cfg);
        World w(cfg, c.spec);
        w.register_all();
        UpdateOutcome up;
        if (!do_update(w, o, up)) {
            return o;
        }
        WalkStats ws;
        check_slots_and_walk(w, o, up, ws);
        if (ws.drift) {
            o.inconclusive = true;
            o.classes.push_back("layout_drift");
        }
        // (c) the real resolve under ASan, all tuples
        DispatchStats ds;
        if (o.ok) {
            check_dispatch(w, o, ds, false);
        }
        // lattice allocator ran: a class with >= 2 direct bases below a root
        // that some method uses
        bool lattice = false;
        for (int k = 0; k < c.spec.n; ++k) {
            if (c.spec.bases[k].size() >= 2) {
                lattice = true;
            }
        }
        o.nontrivial = lattice && ws.shared;
        common_classes(c.spec, o);
        if (ws.shared) {
            o.classes.push_back("class_shared_by_2+_method_params");
        }
        return o;
    };
    return make_spec_property("C04", variant, gen, run, false);
}

// ---------------------------------------------------------------------------
// C17

Property prop_C17(const std::string& variant) {
    auto gen = [variant](Choice& ch, int size) {
        SpecCase c;
        c.cfg = pick_cfg(ch, {"chk_vec", "nohash_vec", "map"}, variant);
        GenOpts o;
        o.id_schemes = ids_for(need_config(c.cfg));
        o.abstract_flags = true;
        o.allow_dup_defs = true;
        o.gappy = true;
        o.max_classes = 12;
        o.big_pool = true;
        c.spec = gen_spec(ch, o, size);
        return c;
    };
    auto run = [](const SpecCase& c) {
        Outcome o;
        o.hash = hash_case(c);
        Config& cfg = need_config(c.cfg);
        World w(cfg, c.spec);
        w.register_all();
        UpdateOutcome up;
        if (!do_update(w, o, up)) {
            return o;
        }
        ReportModel rm = model_report(c.spec);
        check_report(w, o, up, rm);
        bool any_abstract = false;
        for (char a : c.spec.abstract_) {
            any_abstract |= a != 0;
        }
        o.nontrivial = any_abstract && (rm.not_implemented || rm.ambiguous);
        common_classes(c.spec, o);
        if (rm.not_implemented != rm.concrete_not_implemented) {
            o.classes.push_back("gap_only_on_abstract_tuples");
        }
        if (rm.ambiguous != rm.concrete_ambiguous) {
            o.classes.push_back("ambiguity_only_on_abstract_tuples");
        }
        if (rm.ambiguous) {
            o.classes.push_back("AMBIGUOUS_tuple");
        }
        if (rm.not_implemented) {
            o.classes.push_back("NONE_tuple");
        }
        if (rm.cells) {
            o.classes.push_back("has_multi_method_cells");
        }
        return o;
    };
    return make_spec_property("C17", variant, gen, run, true);
}


} // namespace e1
