#include "pool.hpp"
#include <cstdio>
namespace e1 {
std::vector<BodyRec> g_log;
int g_error_deliveries;
std::vector<Config*>& configs() { static std::vector<Config*> v; return v; }
type_id typeinfo_id(int i) { return 0; }
}
int main() {
    for (auto c : e1::configs()) printf("%s pool=%zu hash=%d chk=%d ind=%d map=%d\n", c->name.c_str(), c->pool.size(), c->has_hash, c->checked, c->indirect, c->is_map);
}
