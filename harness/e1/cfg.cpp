// One translation unit per policy configuration: compile with -DCFG_<name>.
#include "pool.hpp"

using namespace yorel::yomm2;

#define REGISTER(NAME, NKEYS, CALL_ERROR_ROUTE)                                \
    namespace {                                                                \
    e1::Config* registered =                                                   \
        e1::Impl<NAME>::make<NKEYS>(#NAME, CALL_ERROR_ROUTE);                  \
    }

#include "cfgs.inc"
