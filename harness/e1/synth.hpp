// Materialises a Spec in a policy configuration through the library's own
// registration records, and observes the result.
#ifndef VERIF_E1_SYNTH_HPP
#define VERIF_E1_SYNTH_HPP

#include "pool.hpp"
#include "spec.hpp"

#include <cstring>
#include <deque>
#include <memory>
#include <new>

namespace e1 {

extern type_id g_deferred_ids[MAXCLS * 8];
using deferred_fn = type_id (*)();
deferred_fn deferred_function(int slot);

inline Config* find_config(const std::string& name) {
    for (auto c : configs()) {
        if (c->name == name) {
            return c;
        }
    }
    return nullptr;
}

inline MethodDesc* find_method(Config& cfg, int shape, int key) {
    const char* str = shape_table()[shape].str;
    for (auto& d : cfg.pool) {
        if (d.key == key && std::string(d.shape) == str) {
            return &d;
        }
    }
    return nullptr;
}

inline type_id class_id(const Spec& s, int c, int alias, bool projection) {
    type_id base;
    auto p = s.id_param[c];
    if (s.id_scheme == "small") {
        base = p;
    } else if (s.id_scheme == "typeinfo") {
        base = typeinfo_id(int(p));
    } else if (s.id_scheme == "strided") {
        base = p << s.id_aux;
    } else if (s.id_scheme == "highbits") {
        base = (p << 44) | 0x5a0;
    } else {
        base = p;
    }
    if (projection) {
        return (base << 3) | type_id(alias & 7);
    }
    return base;
}

struct MethInst {
    const MethSpec* ms = nullptr;
    MethodDesc* desc = nullptr;
    type_id* vp = nullptr;
    std::vector<detail::definition_info*> defs; // parallel to ms->defs
    std::vector<void**> next;                   // where update writes next
    bool registered = false;
};

struct World {
    Config& cfg;
    const Spec& spec;
    std::deque<detail::class_info> cis; // parallel to spec.recs
    std::vector<char> ci_registered;
    std::vector<std::unique_ptr<type_id[]>> arrays;
    struct ArrayRec {
        std::vector<std::pair<int, int>> key; // (class, alias) sequence
        std::vector<type_id> ids;             // what the array must hold
        type_id* p = nullptr;
    };
    std::vector<ArrayRec> array_recs;
    std::vector<std::uintptr_t*> own_vptr_store;
    std::vector<std::uintptr_t*>& vptr_store; // per class
    std::deque<MethInst> meths;               // parallel to spec.meths
    std::deque<detail::definition_info> def_pool;
    std::deque<void*> next_pool;
    std::vector<Obj> objs; // per class, alias 0
    int deferred_slots = 0;
    bool is_view = false;

    World(Config& cfg, const Spec& spec)
        : cfg(cfg), spec(spec), vptr_store(own_vptr_store) {
        cfg.reset();
        vptr_store.assign(spec.n, nullptr);
        for (int c = 0; c < spec.n; ++c) {
            objs.emplace_back(class_id(spec, c, 0, cfg.projection));
        }
    }

    // A view: another Spec (same class numbering and ids) over the
    // registration objects of `base`; used to check a live sub-registry.
    // sel[i] = (method index in base, definition indices in base).
    World(
        World& base, const Spec& view_spec,
        const std::vector<std::pair<int, std::vector<int>>>& sel)
        : cfg(base.cfg), spec(view_spec), vptr_store(base.vptr_store),
          is_view(true) {
        for (int c = 0; c < spec.n; ++c) {
            objs.emplace_back(class_id(spec, c, 0, cfg.projection));
        }
        for (std::size_t i = 0; i < sel.size(); ++i) {
            auto& src = base.meths[sel[i].first];
            auto& mi = meths.emplace_back();
            mi.ms = &spec.meths[i];
            mi.desc = src.desc;
            mi.vp = src.vp;
            mi.registered = src.registered;
            for (int d : sel[i].second) {
                mi.defs.push_back(src.defs[d]);
                mi.next.push_back(src.next[d]);
            }
        }
    }

    World(const World&) = delete;

    ~World() {
        if (is_view) {
            return;
        }
        for (auto& d : def_pool) {
            d.method = nullptr; // catalogs are cleared wholesale
        }
        cfg.reset();
    }

    // registered alias ids of a class (projection): aliases used as the
    // `type` of one of its records
    std::vector<int> registered_aliases(int c) const {
        std::vector<int> v;
        for (auto& r : spec.recs) {
            if (r.cls == c &&
                std::find(v.begin(), v.end(), r.alias) == v.end()) {
                v.push_back(r.alias);
            }
        }
        if (v.empty()) {
            v.push_back(0);
        }
        return v;
    }

    // give every object the k-th registered alias id of its class
    void select_alias(int k) {
        for (int c = 0; c < spec.n; ++c) {
            auto al = registered_aliases(c);
            objs[c].id =
                class_id(spec, c, al[k % al.size()], cfg.projection);
        }
    }

    // one static id as the registration arrays hold it
    type_id static_id(int cls, int alias) {
        type_id id = class_id(spec, cls, alias, cfg.projection);
        if (cfg.deferred) {
            int slot = deferred_slots++;
            if (slot >= MAXCLS * 8) {
                throw std::runtime_error("too many deferred ids");
            }
            g_deferred_ids[slot] = id;
            return reinterpret_cast<type_id>(deferred_function(slot));
        }
        return id;
    }

    // an id list as type_id_list<> lays it out (flag word when deferred;
    // null pointers for an empty list)
    std::pair<type_id*, type_id*> id_array(
        const std::vector<int>& classes, const std::vector<int>& aliases) {
        if (classes.empty()) {
            return {nullptr, nullptr};
        }
        std::size_t n = classes.size();
        // as in the library, where type_id_list<Policy, types<...>> is one
        // static array per sequence of classes: class records, methods and
        // definitions with the same sequence share the same array
        std::vector<std::pair<int, int>> key;
        for (std::size_t i = 0; i < n; ++i) {
            key.push_back({classes[i], aliases.empty() ? 0 : aliases[i]});
        }
        for (auto& rec : array_recs) {
            if (rec.key == key) {
                return {rec.p, rec.p + n};
            }
        }
        auto arr = std::make_unique<type_id[]>(n + 1);
        ArrayRec rec;
        rec.key = key;
        for (std::size_t i = 0; i < n; ++i) {
            arr[i] = static_id(key[i].first, key[i].second);
            rec.ids.push_back(
                class_id(spec, key[i].first, key[i].second, cfg.projection));
        }
        arr[n] = 0;
        type_id* p = arr.get();
        rec.p = p;
        arrays.push_back(std::move(arr));
        array_recs.push_back(std::move(rec));
        return {p, p + n};
    }

    // the registration arrays are the program's static data: update may
    // resolve deferred ids in place, and nothing else
    std::string check_arrays() const {
        for (auto& rec : array_recs) {
            std::size_t n = rec.ids.size();
            if (cfg.deferred && rec.p[n] == 0) {
                continue; // not resolved (its registrations are not live)
            }
            for (std::size_t i = 0; i < n; ++i) {
                if (rec.p[i] != rec.ids[i]) {
                    return "registration-arrays: update modified a static "
                           "list of type ids (element " +
                        std::to_string(i) + " of a list of " +
                        std::to_string(n) + " is " +
                        std::to_string(rec.p[i]) + ", was " +
                        std::to_string(rec.ids[i]) + ")";
                }
            }
        }
        return "";
    }

    void build_class_records() {
        for (auto& r : spec.recs) {
            auto& ci = cis.emplace_back();
            ci.type = static_id(r.cls, r.alias);
            auto range = id_array(r.bases, r.base_alias);
            ci.first_base = range.first;
            ci.last_base = range.second;
            ci.is_abstract = spec.abstract_[r.cls];
            ci.static_vptr = &vptr_store[r.cls];
            ci_registered.push_back(0);
        }
    }

    void register_class(std::size_t i) {
        cfg.classes->push_back(cis[i]);
        ci_registered[i] = 1;
    }

    void unregister_class(std::size_t i) {
        cfg.classes->remove(cis[i]);
        ci_registered[i] = 0;
    }

    void build_methods() {
        for (auto& ms : spec.meths) {
            auto& mi = meths.emplace_back();
            mi.ms = &ms;
            mi.desc = find_method(cfg, ms.shape, ms.key);
            if (!mi.desc) {
                throw std::runtime_error(
                    "no such method in pool of " + cfg.name);
            }
            auto range = id_array(ms.vp, ms.vp_alias);
            mi.desc->info->vp_begin = mi.vp = range.first;
            mi.desc->info->vp_end = range.second;
            for (std::size_t d = 0; d < ms.defs.size(); ++d) {
                auto& di = def_pool.emplace_back();
                auto& nx = next_pool.emplace_back(nullptr);
                mi.defs.push_back(&di);
                mi.next.push_back(&nx);
                auto r = id_array(ms.defs[d].cls, ms.defs[d].alias);
                di.vp_begin = r.first;
                di.vp_end = r.second;
                di.pf = mi.desc->defs[ms.defs[d].fn];
                di.next = &nx;
                di.type = 0;
                di.method = nullptr; // set when registered
            }
        }
    }

    void register_method(std::size_t i) {
        cfg.methods->push_back(*meths[i].desc->info);
        meths[i].registered = true;
    }

    void unregister_method(std::size_t i) {
        cfg.methods->remove(*meths[i].desc->info);
        meths[i].registered = false;
    }

    void register_def(std::size_t m, std::size_t d) {
        auto& di = *meths[m].defs[d];
        di.method = meths[m].desc->info;
        di.method->specs.push_back(di);
    }

    // Unregistering a definition is running its destructor (that is what
    // unloading a library does); the record is then re-created in place so
    // that it can be registered again.
    void unregister_def(std::size_t m, std::size_t d) {
        auto& di = *meths[m].defs[d];
        auto vp_begin = di.vp_begin;
        auto vp_end = di.vp_end;
        auto pf = di.pf;
        auto next = di.next;
        di.~definition_info();
        std::memset(static_cast<void*>(&di), 0, sizeof di);
        new (&di) detail::definition_info();
        di.vp_begin = vp_begin;
        di.vp_end = vp_end;
        di.pf = pf;
        di.next = next;
        di.method = nullptr;
    }

    void register_all() {
        build_class_records();
        build_methods();
        for (std::size_t i = 0; i < cis.size(); ++i) {
            register_class(i);
        }
        for (std::size_t m = 0; m < meths.size(); ++m) {
            register_method(m);
            for (std::size_t d = 0; d < meths[m].defs.size(); ++d) {
                register_def(m, d);
            }
        }
    }

    // ---- calling -----------------------------------------------------------

    struct Args {
        Obj* objs[MAXP] = {};
        int ints[MAXP] = {};
        void* vps[MAXP] = {};
    };

    Args make_args(const MethSpec& ms, const int* t, int salt = 0) {
        Args a;
        const char* str = shape_table()[ms.shape].str;
        int vi = 0;
        for (int p = 0; str[p]; ++p) {
            if (str[p] == 'N') {
                a.ints[p] = 1000 + 17 * p + salt;
            } else {
                a.objs[p] = &objs[t[vi++]];
            }
        }
        return a;
    }

    void* expected_pointer(std::size_t m, Sel sel) {
        auto& mi = meths[m];
        switch (sel.kind) {
        case K_DEF:
            return mi.desc->defs[mi.ms->defs[sel.def].fn];
        case K_NONE:
            return mi.desc->info->not_implemented;
        default:
            return mi.desc->info->ambiguous;
        }
    }

    // name the target of a dispatch pointer, for messages
    std::string name_pointer(std::size_t m, void* p) {
        auto& mi = meths[m];
        if (p == mi.desc->info->not_implemented) {
            return "not_implemented";
        }
        if (p == mi.desc->info->ambiguous) {
            return "ambiguous";
        }
        for (std::size_t d = 0; d < mi.ms->defs.size(); ++d) {
            if (p == mi.desc->defs[mi.ms->defs[d].fn]) {
                return "def#" + std::to_string(d);
            }
        }
        for (std::size_t f = 0; f < mi.desc->defs.size(); ++f) {
            if (p == mi.desc->defs[f]) {
                return "unregistered pool fn " + std::to_string(f);
            }
        }
        for (auto& other : meths) {
            for (std::size_t f = 0; f < other.desc->defs.size(); ++f) {
                if (p == other.desc->defs[f]) {
                    return "a definition of another method";
                }
            }
        }
        return "foreign pointer";
    }

    std::string describe_tuple(std::size_t m, const int* t) {
        std::string s = "method#" + std::to_string(m) + "(" +
            shape_table()[meths[m].ms->shape].str + ") tuple (";
        for (std::size_t i = 0; i < meths[m].ms->vp.size(); ++i) {
            s += (i ? "," : "") + std::to_string(t[i]);
        }
        return s + ")";
    }
};

} // namespace e1

#endif
