// C07: load / unload histories.  C14: policy isolation.
#include "props.hpp"

namespace e1 {

// ---------------------------------------------------------------------------
// C07

struct Op {
    std::string op; // load_class unload_class load_method unload_method
                    // load_def unload_def update
    int a = 0, b = 0;
};

struct HistCase {
    SpecCase base; // the universe
    std::vector<Op> ops;
};

static json to_json(const HistCase& c) {
    json j = to_json(c.base);
    j["ops"] = json::array();
    for (auto& o : c.ops) {
        j["ops"].push_back({{"op", o.op}, {"a", o.a}, {"b", o.b}});
    }
    return j;
}

static HistCase hist_from_json(const json& j) {
    HistCase c;
    c.base = spec_case_from_json(j);
    for (auto& jo : j.at("ops")) {
        c.ops.push_back({jo.at("op"), jo.value("a", 0), jo.value("b", 0)});
    }
    return c;
}

struct Live {
    World& w;
    const Spec& s;
    std::vector<char> cls, meth;
    std::vector<std::vector<char>> def;
    bool removal_since_update = false;

    explicit Live(World& w) : w(w), s(w.spec) {
        cls.assign(s.n, 0);
        meth.assign(s.meths.size(), 0);
        for (auto& m : s.meths) {
            def.emplace_back(m.defs.size(), 0);
        }
    }

    void load_class(int c) {
        for (int b : bits(s.anc[c])) { // ascending = bases first
            if (!cls[b]) {
                for (std::size_t r = 0; r < s.recs.size(); ++r) {
                    if (s.recs[r].cls == b) {
                        w.register_class(r);
                    }
                }
                cls[b] = 1;
            }
        }
    }

    void unload_def(int m, int d) {
        if (def[m][d]) {
            w.unregister_def(m, d);
            def[m][d] = 0;
            removal_since_update = true;
        }
    }

    void unload_method(int m) {
        if (!meth[m]) {
            return;
        }
        for (std::size_t d = 0; d < def[m].size(); ++d) {
            unload_def(m, int(d));
        }
        w.unregister_method(m);
        meth[m] = 0;
        removal_since_update = true;
    }

    void unload_class(int c) {
        auto ds = bits(s.desc[c]);
        for (auto it = ds.rbegin(); it != ds.rend(); ++it) {
            int k = *it;
            if (!cls[k]) {
                continue;
            }
            for (std::size_t m = 0; m < s.meths.size(); ++m) {
                auto& ms = s.meths[m];
                if (std::find(ms.vp.begin(), ms.vp.end(), k) != ms.vp.end()) {
                    unload_method(int(m));
                }
                for (std::size_t d = 0; d < ms.defs.size(); ++d) {
                    auto& dc = ms.defs[d].cls;
                    if (std::find(dc.begin(), dc.end(), k) != dc.end()) {
                        unload_def(int(m), int(d));
                    }
                }
            }
            for (std::size_t r = 0; r < s.recs.size(); ++r) {
                if (s.recs[r].cls == k) {
                    w.unregister_class(r);
                }
            }
            cls[k] = 0;
            removal_since_update = true;
        }
    }

    void load_method(int m) {
        for (int c : s.meths[m].vp) {
            load_class(c);
        }
        if (!meth[m]) {
            w.register_method(m);
            meth[m] = 1;
        }
    }

    void load_def(int m, int d) {
        load_method(m);
        for (int c : s.meths[m].defs[d].cls) {
            load_class(c);
        }
        if (!def[m][d]) {
            w.register_def(m, d);
            def[m][d] = 1;
        }
    }

    // the live sub-registry with the universe's class numbering: dead
    // classes become isolated
    Spec live_spec(std::vector<std::pair<int, std::vector<int>>>& sel) const {
        Spec ls = s;
        ls.meths.clear();
        ls.recs.clear();
        for (int c = 0; c < s.n; ++c) {
            if (!cls[c]) {
                ls.bases[c].clear();
            }
        }
        for (auto& r : s.recs) {
            if (cls[r.cls]) {
                ls.recs.push_back(r);
            }
        }
        for (std::size_t m = 0; m < s.meths.size(); ++m) {
            if (!meth[m]) {
                continue;
            }
            MethSpec ms = s.meths[m];
            ms.defs.clear();
            std::vector<int> ds;
            for (std::size_t d = 0; d < def[m].size(); ++d) {
                if (def[m][d]) {
                    ms.defs.push_back(s.meths[m].defs[d]);
                    ds.push_back(int(d));
                }
            }
            ls.meths.push_back(ms);
            sel.push_back({int(m), ds});
        }
        ls.derive();
        return ls;
    }
};

static Outcome run_hist(const HistCase& c) {
    Outcome o;
    vf::Fnv h;
    h.add(hash_case(c.base));
    for (auto& op : c.ops) {
        h.add(op.op);
        h.add(op.a);
        h.add(op.b);
    }
    o.hash = h.h;
    Config& cfg = need_config(c.base.cfg);
    const Spec& s = c.base.spec;
    World w(cfg, s);
    w.build_class_records();
    w.build_methods();
    Live live(w);
    int updates = 0;
    bool update_after_removal = false, result_changed = false;
    std::map<std::pair<int, std::vector<int>>, int> prev_model;
    bool have_prev = false;
    Obs last_obs;
    detail::update_report last_report;
    bool last_valid = false;
    int step = 0;
    for (auto& op : c.ops) {
        ++step;
        if (!o.ok) {
            break;
        }
        int nm = int(s.meths.size());
        if (op.op == "load_class") {
            live.load_class(op.a % s.n);
            last_valid = false;
        } else if (op.op == "unload_class") {
            live.unload_class(op.a % s.n);
            last_valid = false;
        } else if (op.op == "load_method" && nm) {
            live.load_method(op.a % nm);
            last_valid = false;
        } else if (op.op == "unload_method" && nm) {
            live.unload_method(op.a % nm);
            last_valid = false;
        } else if (op.op == "load_def" && nm) {
            int m = op.a % nm;
            if (!s.meths[m].defs.empty()) {
                live.load_def(m, op.b % int(s.meths[m].defs.size()));
                last_valid = false;
            }
        } else if (op.op == "unload_def" && nm) {
            int m = op.a % nm;
            if (!s.meths[m].defs.empty()) {
                live.unload_def(m, op.b % int(s.meths[m].defs.size()));
                last_valid = false;
            }
        } else if (op.op == "update") {
            std::vector<std::pair<int, std::vector<int>>> sel;
            Spec ls = live.live_spec(sel);
            UpdateOutcome up;
            if (!do_update(w, o, up)) {
                if (!o.ok) {
                    o.message = "history-" + o.message + " (step " +
                        std::to_string(step) + ")";
                }
                break;
            }
            ++updates;
            World view(w, ls, sel);
            DispatchStats ds;
            Outcome oc;
            check_dispatch(view, oc, ds, true, 2);
            NextStats ns;
            if (oc.ok) {
                check_next(view, oc, ns);
            }
            if (oc.ok) {
                check_report(view, oc, up, model_report(ls));
            }
            if (!oc.ok) {
                o.fail("history-" + oc.message + " (after the update at step " +
                       std::to_string(step) + ")");
                break;
            }
            Obs obs = observe(view);
            if (last_valid) {
                // nothing changed since the previous update
                auto d = diff_obs(last_obs, obs);
                auto& a = last_report;
                auto& b = up.report;
                if (!d.empty() || a.cells != b.cells ||
                    a.not_implemented != b.not_implemented ||
                    a.ambiguous != b.ambiguous ||
                    a.concrete_not_implemented != b.concrete_not_implemented ||
                    a.concrete_ambiguous != b.concrete_ambiguous) {
                    o.fail("history-idempotence: a second update with no "
                           "change alters the outcome (step " +
                           std::to_string(step) + "): " + d);
                    break;
                }
                o.classes.push_back("update_twice_no_change");
            }
            // did a removal change some tuple's result?
            std::map<std::pair<int, std::vector<int>>, int> model;
            for (std::size_t i = 0; i < ls.meths.size(); ++i) {
                Tuples tu(ls, ls.meths[i], 400);
                while (tu.next()) {
                    Sel sel2 = dispatch(ls, ls.meths[i], tu.t.data());
                    model[{sel[i].first, tu.t}] = sel2.kind == K_DEF
                        ? ls.meths[i].defs[sel2.def].fn
                        : -1 - int(sel2.kind);
                }
            }
            if (have_prev && live.removal_since_update) {
                update_after_removal = true;
                for (auto& [k, v] : model) {
                    auto it = prev_model.find(k);
                    if (it != prev_model.end() && it->second != v) {
                        result_changed = true;
                    }
                }
            }
            prev_model = model;
            have_prev = true;
            live.removal_since_update = false;
            last_obs = obs;
            last_report = up.report;
            last_valid = true;
        }
    }
    o.nontrivial = update_after_removal && result_changed;
    common_classes(s, o);
    o.classes.push_back(cfg.name.c_str());
    if (updates >= 2) {
        o.classes.push_back("2+_updates");
    }
    if (update_after_removal) {
        o.classes.push_back("update_after_removal");
    }
    return o;
}

static HistCase gen_hist(Choice& ch, int size, const std::string& variant) {
    HistCase c;
    c.base.cfg = pick_cfg(
        ch,
        {"chk_vec", "nohash_vec", "map", "fast_vec", "chk_vec_ind",
         "deferred_chk", "deferred_nohash"},
        variant);
    GenOpts o;
    o.id_schemes = ids_for(need_config(c.base.cfg));
    o.max_classes = 9;
    o.max_methods = 4;
    o.max_defs = 8;
    o.canonical_presentation = ch.chance(2, 3);
    c.base.spec = gen_spec(ch, o, std::max(size, 20));
    const Spec& s = c.base.spec;
    int nops = 2 + ch.draw(std::max(2, std::min(30, size / 2)));
    static const char* kinds[] = {"load_def",      "load_def",
                                  "load_def",      "load_method",
                                  "load_class",    "update",
                                  "update",        "unload_def",
                                  "unload_def",    "unload_method",
                                  "unload_class"};
    // start with a burst of loads
    int burst = ch.draw(8);
    for (int i = 0; i < burst; ++i) {
        c.ops.push_back({"load_def", int(ch.draw(8)), int(ch.draw(16))});
    }
    for (int i = 0; i < nops; ++i) {
        Op op;
        op.op = kinds[ch.draw(11)];
        op.a = ch.draw(std::max<std::size_t>(
            {std::size_t(s.n), s.meths.size(), std::size_t(1)}));
        op.b = ch.draw(16);
        c.ops.push_back(op);
    }
    c.ops.push_back({"update", 0, 0});
    return c;
}

Property prop_C07(const std::string& variant) {
    Property p;
    p.id = "C07";
    p.variant = variant;
    p.generate = [variant](Choice& ch, int size) {
        return to_json(gen_hist(ch, size, variant));
    };
    p.run = [](const json& j) { return run_hist(hist_from_json(j)); };
    p.fast = [variant](Choice& ch, int size, std::function<json()>& lazy) {
        auto c = std::make_shared<HistCase>(gen_hist(ch, size, variant));
        lazy = [c]() { return to_json(*c); };
        return run_hist(*c);
    };
    p.shrinks = [](const json& j) {
        HistCase c = hist_from_json(j);
        std::vector<json> out;
        // drop an operation
        for (std::size_t i = 0; i < c.ops.size(); ++i) {
            HistCase r = c;
            r.ops.erase(r.ops.begin() + i);
            out.push_back(to_json(r));
        }
        // smaller universe (ops address items modulo the sizes)
        for (auto& s : spec_shrinks(c.base.spec,
                                    false)) {
            HistCase r = c;
            r.base.spec = s;
            out.push_back(to_json(r));
        }
        if (c.base.cfg != "chk_vec" && c.base.spec.id_scheme == "small") {
            HistCase r = c;
            r.base.cfg = "chk_vec";
            out.push_back(to_json(r));
        }
        return out;
    };
    return p;
}

} // namespace e1

// ---------------------------------------------------------------------------
// C14: policies are isolated from one another

namespace e1 {

struct IsoOp {
    int pol = 0;
    std::string op; // load_def unload_def unload_class load_class update
                    // error_call set_handler make_vp
    int a = 0, b = 0;
};

struct IsoCase {
    std::vector<SpecCase> pols; // same graph and ids, own methods
    std::vector<IsoOp> ops;
};

static json to_json(const IsoCase& c) {
    json j;
    j["pols"] = json::array();
    for (auto& p : c.pols) {
        j["pols"].push_back(to_json(p));
    }
    j["ops"] = json::array();
    for (auto& o : c.ops) {
        j["ops"].push_back(
            {{"pol", o.pol}, {"op", o.op}, {"a", o.a}, {"b", o.b}});
    }
    return j;
}

static IsoCase iso_from_json(const json& j) {
    IsoCase c;
    for (auto& jp : j.at("pols")) {
        c.pols.push_back(spec_case_from_json(jp));
    }
    for (auto& jo : j.at("ops")) {
        c.ops.push_back({jo.at("pol"), jo.at("op"), jo.value("a", 0),
                         jo.value("b", 0)});
    }
    return c;
}

struct PolState {
    Config* cfg = nullptr;
    const Spec* spec = nullptr;
    std::unique_ptr<World> w;
    std::unique_ptr<Live> live;
    bool clean = false; // updated, and nothing registered/unregistered since
    int handler_mode = 0;
    std::vector<std::pair<int, void*>> vps; // (class, virtual_ptr handle)
    ~PolState() {
        for (auto& v : vps) {
            cfg->vp_del(v.second);
        }
    }
};

using Snapshot = std::vector<std::pair<std::string, std::uint64_t>>;

// Everything observable about a settled policy.
static Snapshot snapshot(PolState& p) {
    Snapshot sn;
    World& w = *p.w;
    std::vector<std::pair<int, std::vector<int>>> sel;
    Spec ls = p.live->live_spec(sel);
    World view(w, ls, sel);
    Obs obs = observe(view);
    vf::Fnv h;
    for (auto& [k, v] : obs.disp) {
        h.add(k.first);
        h.add(k.second);
        for (int x : v) {
            h.add(std::uint64_t(x + 10));
        }
    }
    sn.push_back({"dispatch of some tuple", h.h});
    vf::Fnv hn;
    for (auto& [k, v] : obs.next) {
        hn.add(std::get<0>(k));
        hn.add(std::get<1>(k));
        hn.add(std::get<2>(k));
        hn.add(std::uint64_t(v + 10));
    }
    sn.push_back({"next of some definition", hn.h});
    auto& dd = *p.cfg->dispatch_data;
    sn.push_back({"dispatch_data address",
                  reinterpret_cast<std::uint64_t>(dd.data())});
    sn.push_back({"dispatch_data size", dd.size()});
    vf::Fnv hd;
    for (auto x : dd) {
        hd.add(x);
    }
    sn.push_back({"dispatch_data content", hd.h});
    HashState hs = p.cfg->hash_state();
    sn.push_back({"hash multiplier", hs.mult});
    sn.push_back({"hash shift", hs.shift});
    sn.push_back({"hash length", hs.length});
    sn.push_back({"hash min", hs.min});
    sn.push_back({"hash max", hs.max});
    vf::Fnv hc;
    for (std::size_t i = 0; i < hs.control_size; ++i) {
        hc.add(hs.control[i]);
    }
    sn.push_back({"hash control table", hc.h});
    sn.push_back({"v-table pointer table size", p.cfg->vptrs_size()});
    for (int c = 0; c < ls.n; ++c) {
        if (p.live->cls[c]) {
            const std::uintptr_t* vp = nullptr;
            guarded([&] { vp = p.cfg->dynamic_vptr(w.objs[c]); });
            sn.push_back({"v-table found for class " + std::to_string(c),
                          reinterpret_cast<std::uint64_t>(vp)});
        }
    }
    for (auto& v : p.vps) {
        sn.push_back({"v-table of a live virtual_ptr",
                      reinterpret_cast<std::uint64_t>(
                          p.cfg->vp_vptr(v.second))});
    }
    // which handler fires on a provoked error
    for (std::size_t m = 0; m < view.meths.size(); ++m) {
        Tuples tu(ls, ls.meths[m], 200);
        bool done = false;
        while (tu.next() && !done) {
            if (dispatch(ls, ls.meths[m], tu.t.data()).kind != K_DEF) {
                auto args = view.make_args(ls.meths[m], tu.t.data());
                int before = *p.cfg->deliveries;
                ErrorRec e = guarded([&] {
                    view.meths[m].desc->call(args.objs, args.ints, nullptr);
                });
                sn.push_back({"kind of error a failing call raises",
                              std::uint64_t(e.kind)});
                sn.push_back({"deliveries to this policy's handler",
                              std::uint64_t(*p.cfg->deliveries - before)});
                done = true;
            }
        }
        if (done) {
            break;
        }
    }
    return sn;
}

// Error handlers belong to one policy: with B left on the library's default
// handlers, an unresolvable call in B must end in abort() without entering a
// handler installed in any other policy - the other policies of the case, or
// the default policy (set_error_handler, set_method_call_error_handler).
// Forked child; the foreign handlers end the process with a tell-tale status.
static std::string foreign_handler_probe(
    PolState& b, const std::vector<PolState*>& others) {
    World& w = *b.w;
    std::vector<std::pair<int, std::vector<int>>> sel;
    Spec ls = b.live->live_spec(sel);
    World view(w, ls, sel);
    for (std::size_t m = 0; m < view.meths.size(); ++m) {
        Tuples tu(ls, ls.meths[m], 200);
        while (tu.next()) {
            if (dispatch(ls, ls.meths[m], tu.t.data()).kind == K_DEF) {
                continue;
            }
            auto args = view.make_args(ls.meths[m], tu.t.data());
            fflush(nullptr);
            pid_t pid = fork();
            if (pid == 0) {
                int devnull = open("/dev/null", O_WRONLY);
                if (devnull >= 0) {
                    dup2(devnull, 2);
                }
                signal(SIGABRT, sigabrt_probe);
                yorel::yomm2::set_error_handler(
                    [](const error_type&) { _exit(47); });
                yorel::yomm2::set_method_call_error_handler(
                    [](const method_call_error&, std::size_t, type_id*) {
                        _exit(48);
                    });
                for (auto q : others) {
                    q->cfg->set_handler_mode(5);
                }
                b.cfg->set_handler_mode(2);
                g_log.clear();
                try {
                    view.meths[m].desc->call(args.objs, args.ints, nullptr);
                } catch (...) {
                    _exit(44);
                }
                _exit(45);
            }
            int status = 0;
            waitpid(pid, &status, 0);
            int code = WIFEXITED(status) ? WEXITSTATUS(status) : -1;
            if (code == 42) {
                return "";
            }
            std::string what = code == 47 || code == 48
                ? "was delivered to the handler installed in the default "
                  "policy"
                : code == 49
                    ? "was delivered to the handler of another policy"
                    : code == 43 ? "ran a definition"
                    : code == 45 ? "returned to the caller"
                    : code == 44
                        ? "let an exception escape"
                        : "ended the process with status " +
                            std::to_string(status);
            return "an unresolvable call in policy " + b.cfg->name +
                ", left on the library's default handlers, " + what +
                " instead of aborting";
        }
    }
    return "";
}

static std::string diff_snapshot(const Snapshot& a, const Snapshot& b) {
    if (a.size() != b.size()) {
        return "the set of observations";
    }
    for (std::size_t i = 0; i < a.size(); ++i) {
        if (a[i] != b[i]) {
            return a[i].first;
        }
    }
    return "";
}

static Outcome run_iso(const IsoCase& c) {
    Outcome o;
    vf::Fnv h;
    for (auto& p : c.pols) {
        h.add(hash_case(p));
    }
    for (auto& op : c.ops) {
        h.add(op.pol);
        h.add(op.op);
        h.add(op.a);
        h.add(op.b);
    }
    o.hash = h.h;
    std::vector<std::unique_ptr<PolState>> ps;
    for (auto& pc : c.pols) {
        auto p = std::make_unique<PolState>();
        p->cfg = &need_config(pc.cfg);
        p->spec = &pc.spec;
        p->w = std::make_unique<World>(*p->cfg, pc.spec);
        p->w->build_class_records();
        p->w->build_methods();
        p->live = std::make_unique<Live>(*p->w);
        ps.push_back(std::move(p));
    }
    bool update_between = false;
    int step = 0;
    for (auto& op : c.ops) {
        ++step;
        if (!o.ok) {
            break;
        }
        PolState& b = *ps[op.pol % ps.size()];
        // snapshots of the other settled policies
        std::vector<std::pair<PolState*, Snapshot>> before;
        for (auto& q : ps) {
            if (q.get() != &b && q->clean) {
                before.push_back({q.get(), snapshot(*q)});
            }
        }
        const Spec& s = *b.spec;
        int nm = int(s.meths.size());
        if (op.op == "load_def" && nm) {
            int m = op.a % nm;
            if (!s.meths[m].defs.empty()) {
                b.live->load_def(m, op.b % int(s.meths[m].defs.size()));
                b.clean = false;
            }
        } else if (op.op == "unload_def" && nm) {
            int m = op.a % nm;
            if (!s.meths[m].defs.empty()) {
                b.live->unload_def(m, op.b % int(s.meths[m].defs.size()));
                b.clean = false;
            }
        } else if (op.op == "load_class") {
            b.live->load_class(op.a % s.n);
            b.clean = false;
        } else if (op.op == "unload_class") {
            // virtual_ptrs to unloaded classes die with them
            b.live->unload_class(op.a % s.n);
            for (std::size_t i = 0; i < b.vps.size();) {
                if (!b.live->cls[b.vps[i].first]) {
                    b.cfg->vp_del(b.vps[i].second);
                    b.vps.erase(b.vps.begin() + i);
                } else {
                    ++i;
                }
            }
            b.clean = false;
        } else if (op.op == "update") {
            UpdateOutcome up;
            Outcome ou;
            if (!do_update(*b.w, ou, up)) {
                if (!ou.ok) {
                    o.fail("isolation-" + ou.message);
                } else {
                    o.inconclusive = true;
                }
                break;
            }
            if (!b.cfg->indirect) {
                // direct virtual_ptrs are valid until the next update
                for (auto& v : b.vps) {
                    b.cfg->vp_del(v.second);
                }
                b.vps.clear();
            }
            b.clean = true;
            if (!before.empty()) {
                update_between = true;
            }
        } else if (op.op == "set_handler") {
            b.handler_mode = op.a % 2 ? 3 : 0;
            b.cfg->set_handler_mode(b.handler_mode);
        } else if (op.op == "make_vp" && b.clean) {
            int cls = op.a % s.n;
            if (b.live->cls[cls]) {
                void* vp = nullptr;
                guarded([&] { vp = b.cfg->vp_new(&b.w->objs[cls]); });
                if (vp) {
                    b.vps.push_back({cls, vp});
                }
            }
        } else if (op.op == "error_call" && b.clean) {
            snapshot(b); // includes a provoked error on b
            if (op.a % 3 == 0 && !b.cfg->throw_facet) {
                std::vector<PolState*> others;
                for (auto& q : ps) {
                    if (q.get() != &b) {
                        others.push_back(q.get());
                    }
                }
                auto d = foreign_handler_probe(b, others);
                if (!d.empty()) {
                    o.fail("isolation-handler: " + d + " (step " +
                           std::to_string(step) + ")");
                    break;
                }
                o.classes.push_back("default_handler_probe");
            }
        }
        for (auto& [q, sn] : before) {
            Snapshot after = snapshot(*q);
            auto d = diff_snapshot(sn, after);
            if (!d.empty()) {
                o.fail("isolation: '" + op.op + "' on policy " + b.cfg->name +
                       " changed " + d + " of policy " + q->cfg->name +
                       " (step " + std::to_string(step) + ")");
                break;
            }
        }
    }
    // tear down in reverse order of construction
    while (!ps.empty()) {
        ps.pop_back();
    }
    o.nontrivial = update_between;
    if (update_between) {
        o.classes.push_back("update_of_B_between_observations_of_A");
    }
    for (auto& pc : c.pols) {
        o.classes.push_back(need_config(pc.cfg).name.c_str());
    }
    return o;
}

static IsoCase gen_iso(Choice& ch, int size) {
    IsoCase c;
    GenOpts o;
    o.id_schemes = {"small"};
    o.max_classes = 8;
    o.max_methods = 3;
    o.max_defs = 6;
    o.gappy = true;
    Spec graph = gen_spec(ch, o, std::max(size, 15));
    int np = 2 + ch.draw(2);
    // several policies rebound from the same stock policy are in the pool on
    // purpose (debug: chk_vec bc_err proj_chk; release: fast_vec map
    // nohash_vec): a facet left un-rebound would be shared between them
    std::vector<std::string> pool = {"chk_vec",    "fast_vec",    "map",
                                     "nohash_vec", "chk_vec_ind", "bc_err",
                                     "proj_chk"};
    for (int i = 0; i < np; ++i) {
        SpecCase pc;
        std::size_t k = ch.draw(pool.size());
        pc.cfg = pool[k];
        pool.erase(pool.begin() + k);
        pc.spec = graph;
        if (i > 0) {
            // same classes and ids, its own methods and definitions
            pc.spec.meths.clear();
            gen_methods(ch, pc.spec, o, std::max(size, 15));
        }
        c.pols.push_back(pc);
    }
    // bring every policy up
    for (int i = 0; i < np; ++i) {
        int burst = 1 + ch.draw(6);
        for (int k = 0; k < burst; ++k) {
            c.ops.push_back({i, "load_def", int(ch.draw(4)), int(ch.draw(8))});
        }
        c.ops.push_back({i, "update", 0, 0});
    }
    static const char* kinds[] = {"load_def",   "unload_def",  "update",
                                  "update",     "load_class",  "unload_class",
                                  "set_handler", "make_vp",    "make_vp",
                                  "error_call"};
    int nops = 2 + ch.draw(std::max(2, std::min(20, size / 3)));
    for (int i = 0; i < nops; ++i) {
        c.ops.push_back({int(ch.draw(np)), kinds[ch.draw(10)],
                         int(ch.draw(8)), int(ch.draw(8))});
    }
    return c;
}

Property prop_C14(const std::string& variant) {
    Property p;
    p.id = "C14";
    p.variant = variant;
    p.generate = [](Choice& ch, int size) {
        return to_json(gen_iso(ch, size));
    };
    p.run = [](const json& j) { return run_iso(iso_from_json(j)); };
    p.fast = [](Choice& ch, int size, std::function<json()>& lazy) {
        auto c = std::make_shared<IsoCase>(gen_iso(ch, size));
        lazy = [c]() { return to_json(*c); };
        return run_iso(*c);
    };
    p.shrinks = [](const json& j) {
        IsoCase c = iso_from_json(j);
        std::vector<json> out;
        for (std::size_t i = 0; i < c.ops.size(); ++i) {
            IsoCase r = c;
            r.ops.erase(r.ops.begin() + i);
            out.push_back(to_json(r));
        }
        for (std::size_t k = 0; k < c.pols.size(); ++k) {
            for (std::size_t i = 0; i < c.pols[k].spec.meths.size(); ++i) {
                IsoCase r = c;
                r.pols[k].spec.meths.erase(r.pols[k].spec.meths.begin() + i);
                out.push_back(to_json(r));
            }
        }
        return out;
    };
    return p;
}

} // namespace e1
