// The E1 properties: generators (domains), runs (oracles), shrinks.
#ifndef VERIF_E1_PROPS_HPP
#define VERIF_E1_PROPS_HPP

#include "checks.hpp"

namespace e1 {

using vf::Property;

inline std::vector<std::string> ids_for(const Config& c) {
    if (c.deferred) {
        return {"small"};
    }
    if (!c.has_hash && !c.is_map) {
        return {"small"}; // vptr_vector indexed by the raw id
    }
    return {"small", "typeinfo", "strided", "highbits", "random64"};
}

struct SpecCase {
    std::string cfg;
    Spec spec;
};

inline json to_json(const SpecCase& c) {
    return {{"cfg", c.cfg}, {"spec", to_json(c.spec)}};
}

inline SpecCase spec_case_from_json(const json& j) {
    return {j.at("cfg"), spec_from_json(j.at("spec"))};
}

inline std::uint64_t hash_case(const SpecCase& c) {
    vf::Fnv h;
    h.add(c.cfg);
    hash_spec(h, c.spec);
    return h.h;
}

inline Config& need_config(const std::string& name) {
    auto c = find_config(name);
    if (!c) {
        throw std::runtime_error("unknown configuration " + name);
    }
    return *c;
}

inline std::string pick_cfg(
    Choice& ch, const std::vector<std::string>& names,
    const std::string& pinned) {
    if (!pinned.empty()) {
        return pinned;
    }
    return names[ch.draw(names.size())];
}

inline void common_classes(const Spec& s, Outcome& o) {
    {
        // (method, parameter) pairs per class: more than a machine word?
        for (int c = 0; c < s.n; ++c) {
            int pairs = 0;
            for (auto& m : s.meths) {
                for (int p : m.vp) {
                    pairs += s.isa(c, p);
                }
            }
            if (pairs > 64) {
                o.classes.push_back("class_with_65+_vtable_slots");
                break;
            }
        }
    }
    bool mi = false;
    for (auto& b : s.bases) {
        mi |= b.size() >= 2;
    }
    if (mi) {
        o.classes.push_back("class_with_2+_direct_bases");
    }
    for (auto& m : s.meths) {
        const char* str = shape_table()[m.shape].str;
        int a = shape_table()[m.shape].arity;
        if (a == 3) {
            o.classes.push_back("arity3");
        }
        if (a == 4) {
            o.classes.push_back("arity4");
        }
        // non-virtual parameter between virtual ones
        int first = -1, last = -1;
        for (int p = 0; str[p]; ++p) {
            if (str[p] != 'N') {
                if (first < 0) {
                    first = p;
                }
                last = p;
            }
        }
        for (int p = first; p < last; ++p) {
            if (str[p] == 'N') {
                o.classes.push_back("nonvirtual_between_virtuals");
                break;
            }
        }
        if (strchr(str, 'P')) {
            o.classes.push_back("virtual_ptr_param");
        }
        if (m.defs.size() > 64) {
            o.classes.push_back("method_with_65+_definitions");
        }
    }
}

// Builds a Property over SpecCase from a generator and a run function.
template<class Gen, class Run>
Property make_spec_property(
    const std::string& id, const std::string& variant, Gen gen, Run run,
    bool keep_canonical, bool keep_ids = false) {
    Property p;
    p.id = id;
    p.variant = variant;
    p.generate = [gen](Choice& ch, int size) {
        return to_json(gen(ch, size));
    };
    p.run = [run](const json& j) {
        SpecCase c = spec_case_from_json(j);
        return run(c);
    };
    p.fast = [gen, run](Choice& ch, int size, std::function<json()>& lazy) {
        auto c = std::make_shared<SpecCase>(gen(ch, size));
        lazy = [c]() { return to_json(*c); };
        return run(*c);
    };
    p.shrinks = [keep_canonical, keep_ids](const json& j) {
        SpecCase c = spec_case_from_json(j);
        std::vector<json> out;
        for (auto& s : spec_shrinks(c.spec, keep_canonical, keep_ids)) {
            out.push_back(to_json(SpecCase{c.cfg, s}));
        }
        if (c.cfg != "chk_vec" && c.spec.id_scheme == "small") {
            // simplest configuration
            bool portable = true;
            for (auto& m : c.spec.meths) {
                portable = portable && m.key != 2;
            }
            if (portable) {
                out.push_back(to_json(SpecCase{"chk_vec", c.spec}));
            }
        }
        return out;
    };
    return p;
}

inline const std::vector<std::string> kAllCfgs = {
    "chk_vec",     "fast_vec",     "nohash_vec",    "map",
    "chk_vec_ind", "fast_vec_ind", "nohash_vec_ind"};

inline bool observe_spec(
    Config& cfg, const Spec& s, Outcome& o, Obs& obs) {
    World w(cfg, s);
    w.register_all();
    UpdateOutcome up;
    if (!do_update(w, o, up)) {
        return false;
    }
    obs = observe(w);
    return true;
}


Property prop_C01(const std::string& variant);
Property prop_C02(const std::string& variant);
Property prop_C03(const std::string& variant);
Property prop_C04(const std::string& variant);
Property prop_C06(const std::string& variant);
Property prop_C07(const std::string& variant);
Property prop_C08(const std::string& variant);
Property prop_C10(const std::string& variant);
Property prop_C12(const std::string& variant);
Property prop_C13(const std::string& variant);
Property prop_C14(const std::string& variant);
Property prop_C15(const std::string& variant);
Property prop_C17(const std::string& variant);

} // namespace e1

#endif
