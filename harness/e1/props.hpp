// The E1 properties: generators (domains), runs (oracles), shrinks.
#ifndef VERIF_E1_PROPS_HPP
#define VERIF_E1_PROPS_HPP

#include "checks.hpp"

namespace e1 {

using vf::Property;

inline std::vector<std::string> ids_for(const Config& c) {
    if (c.deferred) {
        return {"small"};
    }
    if (!c.has_hash && !c.is_map) {
        return {"small"}; // vptr_vector indexed by the raw id
    }
    return {"small", "typeinfo", "strided", "highbits", "random64"};
}

struct SpecCase {
    std::string cfg;
    Spec spec;
};

inline json to_json(const SpecCase& c) {
    return {{"cfg", c.cfg}, {"spec", to_json(c.spec)}};
}

inline SpecCase spec_case_from_json(const json& j) {
    return {j.at("cfg"), spec_from_json(j.at("spec"))};
}

inline std::uint64_t hash_case(const SpecCase& c) {
    vf::Fnv h;
    h.add(c.cfg);
    hash_spec(h, c.spec);
    return h.h;
}

inline Config& need_config(const std::string& name) {
    auto c = find_config(name);
    if (!c) {
        throw std::runtime_error("unknown configuration " + name);
    }
    return *c;
}

inline std::string pick_cfg(
    Choice& ch, const std::vector<std::string>& names,
    const std::string& pinned) {
    if (!pinned.empty()) {
        return pinned;
    }
    return names[ch.draw(names.size())];
}

inline void common_classes(const Spec& s, Outcome& o) {
    bool mi = false;
    for (auto& b : s.bases) {
        mi |= b.size() >= 2;
    }
    if (mi) {
        o.classes.push_back("class_with_2+_direct_bases");
    }
    for (auto& m : s.meths) {
        const char* str = shape_table()[m.shape].str;
        int a = shape_table()[m.shape].arity;
        if (a == 3) {
            o.classes.push_back("arity3");
        }
        if (a == 4) {
            o.classes.push_back("arity4");
        }
        // non-virtual parameter between virtual ones
        int first = -1, last = -1;
        for (int p = 0; str[p]; ++p) {
            if (str[p] != 'N') {
                if (first < 0) {
                    first = p;
                }
                last = p;
            }
        }
        for (int p = first; p < last; ++p) {
            if (str[p] == 'N') {
                o.classes.push_back("nonvirtual_between_virtuals");
                break;
            }
        }
        if (strchr(str, 'P')) {
            o.classes.push_back("virtual_ptr_param");
        }
    }
}

// Builds a Property over SpecCase from a generator and a run function.
template<class Gen, class Run>
Property make_spec_property(
    const std::string& id, const std::string& variant, Gen gen, Run run,
    bool keep_canonical) {
    Property p;
    p.id = id;
    p.variant = variant;
    p.generate = [gen](Choice& ch, int size) {
        return to_json(gen(ch, size));
    };
    p.run = [run](const json& j) {
        SpecCase c = spec_case_from_json(j);
        return run(c);
    };
    p.fast = [gen, run](Choice& ch, int size, std::function<json()>& lazy) {
        auto c = std::make_shared<SpecCase>(gen(ch, size));
        lazy = [c]() { return to_json(*c); };
        return run(*c);
    };
    p.shrinks = [keep_canonical](const json& j) {
        SpecCase c = spec_case_from_json(j);
        std::vector<json> out;
        for (auto& s : spec_shrinks(c.spec, keep_canonical)) {
            out.push_back(to_json(SpecCase{c.cfg, s}));
        }
        if (c.cfg != "chk_vec" && c.spec.id_scheme == "small") {
            // simplest configuration
            bool portable = true;
            for (auto& m : c.spec.meths) {
                portable = portable && m.key < 2;
            }
            if (portable) {
                out.push_back(to_json(SpecCase{"chk_vec", c.spec}));
            }
        }
        return out;
    };
    return p;
}

static const std::vector<std::string> kAllCfgs = {
    "chk_vec",     "fast_vec",     "nohash_vec",    "map",
    "chk_vec_ind", "fast_vec_ind", "nohash_vec_ind"};

// ---------------------------------------------------------------------------
// C01

inline Property prop_C01(const std::string& variant) {
    auto gen = [variant](Choice& ch, int size) {
        SpecCase c;
        c.cfg = pick_cfg(ch, kAllCfgs, variant);
        GenOpts o;
        o.id_schemes = ids_for(need_config(c.cfg));
        c.spec = gen_spec(ch, o, size);
        return c;
    };
    auto run = [](const SpecCase& c) {
        Outcome o;
        o.hash = hash_case(c);
        Config& cfg = need_config(c.cfg);
        World w(cfg, c.spec);
        w.register_all();
        UpdateOutcome up;
        if (!do_update(w, o, up)) {
            return o;
        }
        DispatchStats ds;
        check_dispatch(w, o, ds);
        o.nontrivial = ds.multi_applicable;
        common_classes(c.spec, o);
        o.classes.push_back(cfg.name.c_str());
        if (ds.multi_applicable) {
            o.classes.push_back("tuple_with_2+_applicable");
        }
        if (ds.has_none) {
            o.classes.push_back("NONE_tuple");
        }
        if (ds.has_ambig) {
            o.classes.push_back("AMBIGUOUS_tuple");
        }
        if (has_nontransitive(c.spec)) {
            o.classes.push_back("nontransitive_more_specific");
        }
        return o;
    };
    return make_spec_property("C01", variant, gen, run, true);
}

// ---------------------------------------------------------------------------
// C03

inline Property prop_C03(const std::string& variant) {
    auto gen = [variant](Choice& ch, int size) {
        SpecCase c;
        c.cfg = pick_cfg(ch, {"chk_vec", "fast_vec", "nohash_vec", "map"},
                         variant);
        GenOpts o;
        o.id_schemes = ids_for(need_config(c.cfg));
        c.spec = gen_spec(ch, o, size);
        return c;
    };
    auto run = [](const SpecCase& c) {
        Outcome o;
        o.hash = hash_case(c);
        Config& cfg = need_config(c.cfg);
        World w(cfg, c.spec);
        w.register_all();
        UpdateOutcome up;
        if (!do_update(w, o, up)) {
            return o;
        }
        NextStats ns;
        check_next(w, o, ns);
        o.nontrivial = ns.two_general;
        common_classes(c.spec, o);
        if (ns.two_general) {
            o.classes.push_back("def_with_2+_more_general");
        }
        return o;
    };
    return make_spec_property("C03", variant, gen, run, true);
}

// ---------------------------------------------------------------------------
// C04

inline Property prop_C04(const std::string& variant) {
    auto gen = [variant](Choice& ch, int size) {
        SpecCase c;
        c.cfg = pick_cfg(ch, {"chk_vec", "fast_vec", "nohash_vec", "map"},
                         variant);
        GenOpts o;
        o.id_schemes = ids_for(need_config(c.cfg));
        o.lattice_bias = true;
        o.vp_anywhere = true;
        o.max_methods = 8;
        o.max_defs = 6;
        o.canonical_presentation = false;
        c.spec = gen_spec(ch, o, size);
        if (ch.chance(1, 3)) {
            canonical_presentation(c.spec);
        }
        return c;
    };
    auto run = [](const SpecCase& c) {
        Outcome o;
        o.hash = hash_case(c);
        Config& cfg = need_config(c.cfg);
        World w(cfg, c.spec);
        w.register_all();
        UpdateOutcome up;
        if (!do_update(w, o, up)) {
            return o;
        }
        WalkStats ws;
        check_slots_and_walk(w, o, up, ws);
        if (ws.drift) {
            o.inconclusive = true;
            o.classes.push_back("layout_drift");
        }
        // (c) the real resolve under ASan, all tuples
        DispatchStats ds;
        if (o.ok) {
            check_dispatch(w, o, ds, false);
        }
        // lattice allocator ran: a class with >= 2 direct bases below a root
        // that some method uses
        bool lattice = false;
        for (int k = 0; k < c.spec.n; ++k) {
            if (c.spec.bases[k].size() >= 2) {
                lattice = true;
            }
        }
        o.nontrivial = lattice && ws.shared;
        common_classes(c.spec, o);
        if (ws.shared) {
            o.classes.push_back("class_shared_by_2+_method_params");
        }
        return o;
    };
    return make_spec_property("C04", variant, gen, run, false);
}

inline std::optional<Property>
lookup_property(const std::string& id, const std::string& variant) {
    if (id == "C01") {
        return prop_C01(variant);
    }
    if (id == "C03") {
        return prop_C03(variant);
    }
    if (id == "C04") {
        return prop_C04(variant);
    }
    return std::nullopt;
}

} // namespace e1

#endif
