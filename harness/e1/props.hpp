// The E1 properties: generators (domains), runs (oracles), shrinks.
#ifndef VERIF_E1_PROPS_HPP
#define VERIF_E1_PROPS_HPP

#include "checks.hpp"

namespace e1 {

using vf::Property;

inline std::vector<std::string> ids_for(const Config& c) {
    if (c.deferred) {
        return {"small"};
    }
    if (!c.has_hash && !c.is_map) {
        return {"small"}; // vptr_vector indexed by the raw id
    }
    return {"small", "typeinfo", "strided", "highbits", "random64"};
}

struct SpecCase {
    std::string cfg;
    Spec spec;
};

inline json to_json(const SpecCase& c) {
    return {{"cfg", c.cfg}, {"spec", to_json(c.spec)}};
}

inline SpecCase spec_case_from_json(const json& j) {
    return {j.at("cfg"), spec_from_json(j.at("spec"))};
}

inline std::uint64_t hash_case(const SpecCase& c) {
    vf::Fnv h;
    h.add(c.cfg);
    hash_spec(h, c.spec);
    return h.h;
}

inline Config& need_config(const std::string& name) {
    auto c = find_config(name);
    if (!c) {
        throw std::runtime_error("unknown configuration " + name);
    }
    return *c;
}

inline std::string pick_cfg(
    Choice& ch, const std::vector<std::string>& names,
    const std::string& pinned) {
    if (!pinned.empty()) {
        return pinned;
    }
    return names[ch.draw(names.size())];
}

inline void common_classes(const Spec& s, Outcome& o) {
    bool mi = false;
    for (auto& b : s.bases) {
        mi |= b.size() >= 2;
    }
    if (mi) {
        o.classes.push_back("class_with_2+_direct_bases");
    }
    for (auto& m : s.meths) {
        const char* str = shape_table()[m.shape].str;
        int a = shape_table()[m.shape].arity;
        if (a == 3) {
            o.classes.push_back("arity3");
        }
        if (a == 4) {
            o.classes.push_back("arity4");
        }
        // non-virtual parameter between virtual ones
        int first = -1, last = -1;
        for (int p = 0; str[p]; ++p) {
            if (str[p] != 'N') {
                if (first < 0) {
                    first = p;
                }
                last = p;
            }
        }
        for (int p = first; p < last; ++p) {
            if (str[p] == 'N') {
                o.classes.push_back("nonvirtual_between_virtuals");
                break;
            }
        }
        if (strchr(str, 'P')) {
            o.classes.push_back("virtual_ptr_param");
        }
    }
}

// Builds a Property over SpecCase from a generator and a run function.
template<class Gen, class Run>
Property make_spec_property(
    const std::string& id, const std::string& variant, Gen gen, Run run,
    bool keep_canonical) {
    Property p;
    p.id = id;
    p.variant = variant;
    p.generate = [gen](Choice& ch, int size) {
        return to_json(gen(ch, size));
    };
    p.run = [run](const json& j) {
        SpecCase c = spec_case_from_json(j);
        return run(c);
    };
    p.fast = [gen, run](Choice& ch, int size, std::function<json()>& lazy) {
        auto c = std::make_shared<SpecCase>(gen(ch, size));
        lazy = [c]() { return to_json(*c); };
        return run(*c);
    };
    p.shrinks = [keep_canonical](const json& j) {
        SpecCase c = spec_case_from_json(j);
        std::vector<json> out;
        for (auto& s : spec_shrinks(c.spec, keep_canonical)) {
            out.push_back(to_json(SpecCase{c.cfg, s}));
        }
        if (c.cfg != "chk_vec" && c.spec.id_scheme == "small") {
            // simplest configuration
            bool portable = true;
            for (auto& m : c.spec.meths) {
                portable = portable && m.key < 2;
            }
            if (portable) {
                out.push_back(to_json(SpecCase{"chk_vec", c.spec}));
            }
        }
        return out;
    };
    return p;
}

static const std::vector<std::string> kAllCfgs = {
    "chk_vec",     "fast_vec",     "nohash_vec",    "map",
    "chk_vec_ind", "fast_vec_ind", "nohash_vec_ind"};

// ---------------------------------------------------------------------------
// C01

inline Property prop_C01(const std::string& variant) {
    auto gen = [variant](Choice& ch, int size) {
        SpecCase c;
        c.cfg = pick_cfg(ch, kAllCfgs, variant);
        GenOpts o;
        o.id_schemes = ids_for(need_config(c.cfg));
        c.spec = gen_spec(ch, o, size);
        return c;
    };
    auto run = [](const SpecCase& c) {
        Outcome o;
        o.hash = hash_case(c);
        Config& cfg = need_config(c.cfg);
        World w(cfg, c.spec);
        w.register_all();
        UpdateOutcome up;
        if (!do_update(w, o, up)) {
            return o;
        }
        DispatchStats ds;
        check_dispatch(w, o, ds);
        o.nontrivial = ds.multi_applicable;
        common_classes(c.spec, o);
        o.classes.push_back(cfg.name.c_str());
        if (ds.multi_applicable) {
            o.classes.push_back("tuple_with_2+_applicable");
        }
        if (ds.has_none) {
            o.classes.push_back("NONE_tuple");
        }
        if (ds.has_ambig) {
            o.classes.push_back("AMBIGUOUS_tuple");
        }
        if (has_nontransitive(c.spec)) {
            o.classes.push_back("nontransitive_more_specific");
        }
        return o;
    };
    return make_spec_property("C01", variant, gen, run, true);
}

// ---------------------------------------------------------------------------
// C03

inline Property prop_C03(const std::string& variant) {
    auto gen = [variant](Choice& ch, int size) {
        SpecCase c;
        c.cfg = pick_cfg(ch, {"chk_vec", "fast_vec", "nohash_vec", "map"},
                         variant);
        GenOpts o;
        o.id_schemes = ids_for(need_config(c.cfg));
        c.spec = gen_spec(ch, o, size);
        return c;
    };
    auto run = [](const SpecCase& c) {
        Outcome o;
        o.hash = hash_case(c);
        Config& cfg = need_config(c.cfg);
        World w(cfg, c.spec);
        w.register_all();
        UpdateOutcome up;
        if (!do_update(w, o, up)) {
            return o;
        }
        NextStats ns;
        check_next(w, o, ns);
        o.nontrivial = ns.two_general;
        common_classes(c.spec, o);
        if (ns.two_general) {
            o.classes.push_back("def_with_2+_more_general");
        }
        return o;
    };
    return make_spec_property("C03", variant, gen, run, true);
}

// ---------------------------------------------------------------------------
// C04

inline Property prop_C04(const std::string& variant) {
    auto gen = [variant](Choice& ch, int size) {
        SpecCase c;
        c.cfg = pick_cfg(ch, {"chk_vec", "fast_vec", "nohash_vec", "map"},
                         variant);
        GenOpts o;
        o.id_schemes = ids_for(need_config(c.cfg));
        o.lattice_bias = true;
        o.vp_anywhere = true;
        o.max_methods = 8;
        o.max_defs = 6;
        o.canonical_presentation = false;
        c.spec = gen_spec(ch, o, size);
        if (ch.chance(1, 3)) {
            canonical_presentation(c.spec);
        }
        return c;
    };
    auto run = [](const SpecCase& c) {
        Outcome o;
        o.hash = hash_case(c);
        Config& cfg = need_config(c.cfg);
        World w(cfg, c.spec);
        w.register_all();
        UpdateOutcome up;
        if (!do_update(w, o, up)) {
            return o;
        }
        WalkStats ws;
        check_slots_and_walk(w, o, up, ws);
        if (ws.drift) {
            o.inconclusive = true;
            o.classes.push_back("layout_drift");
        }
        // (c) the real resolve under ASan, all tuples
        DispatchStats ds;
        if (o.ok) {
            check_dispatch(w, o, ds, false);
        }
        // lattice allocator ran: a class with >= 2 direct bases below a root
        // that some method uses
        bool lattice = false;
        for (int k = 0; k < c.spec.n; ++k) {
            if (c.spec.bases[k].size() >= 2) {
                lattice = true;
            }
        }
        o.nontrivial = lattice && ws.shared;
        common_classes(c.spec, o);
        if (ws.shared) {
            o.classes.push_back("class_shared_by_2+_method_params");
        }
        return o;
    };
    return make_spec_property("C04", variant, gen, run, false);
}

// ---------------------------------------------------------------------------
// C17

inline Property prop_C17(const std::string& variant) {
    auto gen = [variant](Choice& ch, int size) {
        SpecCase c;
        c.cfg = pick_cfg(ch, {"chk_vec", "nohash_vec", "map"}, variant);
        GenOpts o;
        o.id_schemes = ids_for(need_config(c.cfg));
        o.abstract_flags = true;
        o.allow_dup_defs = true;
        o.gappy = true;
        o.max_classes = 12;
        c.spec = gen_spec(ch, o, size);
        return c;
    };
    auto run = [](const SpecCase& c) {
        Outcome o;
        o.hash = hash_case(c);
        Config& cfg = need_config(c.cfg);
        World w(cfg, c.spec);
        w.register_all();
        UpdateOutcome up;
        if (!do_update(w, o, up)) {
            return o;
        }
        ReportModel rm = model_report(c.spec);
        check_report(w, o, up, rm);
        bool any_abstract = false;
        for (char a : c.spec.abstract_) {
            any_abstract |= a != 0;
        }
        o.nontrivial = any_abstract && (rm.not_implemented || rm.ambiguous);
        common_classes(c.spec, o);
        if (rm.not_implemented != rm.concrete_not_implemented) {
            o.classes.push_back("gap_only_on_abstract_tuples");
        }
        if (rm.ambiguous != rm.concrete_ambiguous) {
            o.classes.push_back("ambiguity_only_on_abstract_tuples");
        }
        if (rm.ambiguous) {
            o.classes.push_back("AMBIGUOUS_tuple");
        }
        if (rm.not_implemented) {
            o.classes.push_back("NONE_tuple");
        }
        if (rm.cells) {
            o.classes.push_back("has_multi_method_cells");
        }
        return o;
    };
    return make_spec_property("C17", variant, gen, run, true);
}

// ---------------------------------------------------------------------------
// C02

inline Property prop_C02(const std::string& variant) {
    auto gen = [variant](Choice& ch, int size) {
        SpecCase c;
        c.cfg = pick_cfg(ch, {"chk_vec", "bc_err", "nohash_vec", "map",
                              "fast_vec"},
                         variant);
        GenOpts o;
        o.id_schemes = ids_for(need_config(c.cfg));
        o.allow_dup_defs = true;
        o.gappy = true;
        o.max_defs = 8;
        c.spec = gen_spec(ch, o, size);
        return c;
    };
    auto run = [](const SpecCase& c) {
        Outcome o;
        o.hash = hash_case(c);
        Config& cfg = need_config(c.cfg);
        World w(cfg, c.spec);
        w.register_all();
        UpdateOutcome up;
        if (!do_update(w, o, up)) {
            return o;
        }
        ErrorStats es;
        // fork for roughly one case in eight, decided by the case itself
        int fork_budget = (o.hash % 8) == 0 ? 1 : 0;
        check_errors(w, o, es, 6, fork_budget);
        o.nontrivial = es.error_calls > 0 && es.nonvirtual_or_multi;
        common_classes(c.spec, o);
        o.classes.push_back(cfg.name.c_str());
        if (es.error_calls) {
            o.classes.push_back("has_error_call");
        }
        if (es.forked) {
            o.classes.push_back("forked_handler_returns");
        }
        return o;
    };
    return make_spec_property("C02", variant, gen, run, true);
}

// ---------------------------------------------------------------------------
// C06: permutations of the registration order

struct Perm {
    std::vector<int> recs, meths;
    std::vector<std::vector<int>> defs; // per method (original index)
};

inline Spec apply_perm(const Spec& s, const Perm& p) {
    Spec r = s;
    r.recs.clear();
    for (int i : p.recs) {
        r.recs.push_back(s.recs[i]);
    }
    r.meths.clear();
    for (int mi : p.meths) {
        MethSpec m = s.meths[mi];
        m.defs.clear();
        for (int d : p.defs[mi]) {
            m.defs.push_back(s.meths[mi].defs[d]);
        }
        r.meths.push_back(m);
    }
    return r;
}

inline Perm gen_perm(Choice& ch, const Spec& s) {
    Perm p;
    for (std::size_t i = 0; i < s.recs.size(); ++i) {
        p.recs.push_back(int(i));
    }
    for (std::size_t i = 0; i < s.meths.size(); ++i) {
        p.meths.push_back(int(i));
        std::vector<int> d;
        for (std::size_t k = 0; k < s.meths[i].defs.size(); ++k) {
            d.push_back(int(k));
        }
        permute(ch, d);
        p.defs.push_back(d);
    }
    permute(ch, p.recs);
    permute(ch, p.meths);
    return p;
}

inline bool is_identity(const Perm& p) {
    auto id = [](const std::vector<int>& v) {
        for (std::size_t i = 0; i < v.size(); ++i) {
            if (v[i] != int(i)) {
                return false;
            }
        }
        return true;
    };
    bool r = id(p.recs) && id(p.meths);
    for (auto& d : p.defs) {
        r = r && id(d);
    }
    return r;
}

struct PermCase {
    SpecCase base;
    std::vector<Perm> perms;
    bool exhaustive = false; // enumerate every permutation instead
};

inline json to_json(const PermCase& c) {
    json j = to_json(c.base);
    j["exhaustive"] = c.exhaustive;
    j["perms"] = json::array();
    for (auto& p : c.perms) {
        j["perms"].push_back(
            {{"recs", p.recs}, {"meths", p.meths}, {"defs", p.defs}});
    }
    return j;
}

inline PermCase perm_case_from_json(const json& j) {
    PermCase c;
    c.base = spec_case_from_json(j);
    c.exhaustive = j.value("exhaustive", false);
    for (auto& jp : j.at("perms")) {
        Perm p;
        p.recs = jp.at("recs").get<std::vector<int>>();
        p.meths = jp.at("meths").get<std::vector<int>>();
        p.defs = jp.at("defs").get<std::vector<std::vector<int>>>();
        c.perms.push_back(p);
    }
    return c;
}

inline bool observe_spec(
    Config& cfg, const Spec& s, Outcome& o, Obs& obs) {
    World w(cfg, s);
    w.register_all();
    UpdateOutcome up;
    if (!do_update(w, o, up)) {
        return false;
    }
    obs = observe(w);
    return true;
}

inline Outcome run_perm_case(const PermCase& c) {
    Outcome o;
    vf::Fnv h;
    h.add(hash_case(c.base));
    Config& cfg = need_config(c.base.cfg);
    const Spec& s = c.base.spec;
    Obs ref;
    if (!observe_spec(cfg, s, o, ref)) {
        return o;
    }
    bool three = false;
    for (auto& m : s.meths) {
        Tuples tu(s, m);
        while (tu.next() && !three) {
            three = count_applicable(s, m, tu.t.data()) >= 3;
        }
    }
    bool nonid = false;
    auto try_perm = [&](const Perm& p) {
        Spec ps = apply_perm(s, p);
        Obs obs;
        Outcome o2;
        if (!observe_spec(cfg, ps, o2, obs)) {
            if (!o2.ok) {
                o.fail(o2.message);
            }
            return;
        }
        auto d = diff_obs(ref, obs);
        if (!d.empty()) {
            o.fail("order: registering in a different order changes the "
                   "outcome: " + d);
        }
    };
    if (c.exhaustive) {
        Perm p;
        for (std::size_t i = 0; i < s.recs.size(); ++i) {
            p.recs.push_back(int(i));
        }
        for (std::size_t i = 0; i < s.meths.size(); ++i) {
            p.meths.push_back(int(i));
            p.defs.emplace_back();
            for (std::size_t k = 0; k < s.meths[i].defs.size(); ++k) {
                p.defs.back().push_back(int(k));
            }
        }
        // odometer over all permutations of records x methods x definitions
        std::function<void(std::size_t)> rec_defs = [&](std::size_t mi) {
            if (!o.ok) {
                return;
            }
            if (mi == p.defs.size()) {
                try_perm(p);
                return;
            }
            std::sort(p.defs[mi].begin(), p.defs[mi].end());
            do {
                rec_defs(mi + 1);
            } while (o.ok &&
                     std::next_permutation(
                         p.defs[mi].begin(), p.defs[mi].end()));
        };
        do {
            std::sort(p.meths.begin(), p.meths.end());
            do {
                rec_defs(0);
            } while (o.ok &&
                     std::next_permutation(p.meths.begin(), p.meths.end()));
        } while (o.ok && std::next_permutation(p.recs.begin(), p.recs.end()));
        nonid = true;
        o.classes.push_back("exhaustive_permutations");
    } else {
        for (auto& p : c.perms) {
            for (int x : p.recs) {
                h.add(x);
            }
            for (int x : p.meths) {
                h.add(x);
            }
            for (auto& d : p.defs) {
                for (int x : d) {
                    h.add(x);
                }
            }
            nonid |= !is_identity(p);
            if (o.ok) {
                try_perm(p);
            }
        }
    }
    o.hash = h.h;
    o.nontrivial = nonid && three;
    common_classes(s, o);
    if (three) {
        o.classes.push_back("tuple_with_3+_applicable");
    }
    if (has_nontransitive(s)) {
        o.classes.push_back("nontransitive_more_specific");
    }
    return o;
}

inline Property prop_C06(const std::string& variant) {
    auto gen = [variant](Choice& ch, int size) {
        PermCase c;
        c.base.cfg = pick_cfg(ch, {"chk_vec", "nohash_vec", "map"}, variant);
        GenOpts o;
        o.id_schemes = ids_for(need_config(c.base.cfg));
        c.exhaustive = ch.chance(1, 6);
        if (c.exhaustive) {
            o.max_classes = 3;
            o.max_methods = 2;
            o.max_defs = 3;
            o.lattice_bias = true;
        }
        c.base.spec = gen_spec(ch, o, size);
        if (!c.exhaustive) {
            int np = 2 + (size > 50 ? ch.draw(4) : 0);
            for (int i = 0; i < np; ++i) {
                c.perms.push_back(gen_perm(ch, c.base.spec));
            }
        }
        return c;
    };
    Property p;
    p.id = "C06";
    p.variant = variant;
    p.generate = [gen](Choice& ch, int size) { return to_json(gen(ch, size)); };
    p.run = [](const json& j) { return run_perm_case(perm_case_from_json(j)); };
    p.fast = [gen](Choice& ch, int size, std::function<json()>& lazy) {
        auto c = std::make_shared<PermCase>(gen(ch, size));
        lazy = [c]() { return to_json(*c); };
        return run_perm_case(*c);
    };
    p.shrinks = [](const json& j) {
        PermCase c = perm_case_from_json(j);
        std::vector<json> out;
        // fewer permutations
        for (std::size_t i = 0; i < c.perms.size() && c.perms.size() > 1;
             ++i) {
            PermCase r = c;
            r.perms.erase(r.perms.begin() + i);
            out.push_back(to_json(r));
        }
        // smaller registry; permutations become "reverse everything"
        for (auto& s : spec_shrinks(c.base.spec, true)) {
            PermCase r;
            r.base = {c.base.cfg, s};
            r.exhaustive = c.exhaustive;
            if (!c.exhaustive) {
                Perm p;
                for (int i = int(s.recs.size()) - 1; i >= 0; --i) {
                    p.recs.push_back(i);
                }
                for (std::size_t i = 0; i < s.meths.size(); ++i) {
                    p.meths.insert(p.meths.begin(), int(i));
                    std::vector<int> d;
                    for (int k = int(s.meths[i].defs.size()) - 1; k >= 0; --k) {
                        d.push_back(k);
                    }
                    p.defs.push_back(d);
                }
                r.perms.push_back(p);
            }
            out.push_back(to_json(r));
        }
        return out;
    };
    return p;
}

// ---------------------------------------------------------------------------
// C08: presentations of the inheritance graph

inline Outcome run_presentation_case(const SpecCase& c) {
    Outcome o;
    o.hash = hash_case(c);
    Config& cfg = need_config(c.cfg);
    const Spec& s = c.spec;
    Spec canon = s;
    canonical_presentation(canon);
    Obs ref;
    if (!observe_spec(cfg, canon, o, ref)) {
        return o;
    }
    {
        World w(cfg, s);
        w.register_all();
        UpdateOutcome up;
        if (!do_update(w, o, up)) {
            return o;
        }
        Obs obs = observe(w);
        auto d = diff_obs(ref, obs);
        if (!d.empty()) {
            o.fail("presentation: the same graph registered differently "
                   "dispatches differently: " + d);
        }
        // against the model as well, and slot injectivity / bounds
        DispatchStats ds;
        if (o.ok) {
            check_dispatch(w, o, ds, false);
        }
        NextStats ns;
        if (o.ok) {
            check_next(w, o, ns);
        }
        WalkStats ws;
        if (o.ok) {
            check_slots_and_walk(w, o, up, ws);
        }
        // acceptance relation as inferred by the compiler
        if (o.ok && up.comp) {
            // map compiler classes back to spec classes through ids
            std::map<const void*, int> cls_of;
            for (auto& cc : up.comp->classes) {
                for (int k = 0; k < s.n; ++k) {
                    if (!cc.type_ids.empty() &&
                        cc.type_ids[0] == w.objs[k].id) {
                        cls_of[&cc] = k;
                    }
                }
            }
            for (auto& cc : up.comp->classes) {
                auto it = cls_of.find(&cc);
                if (it == cls_of.end()) {
                    continue;
                }
                std::uint64_t accepted = 0;
                for (auto d : cc.covariant_classes) {
                    auto jt = cls_of.find(d);
                    if (jt != cls_of.end()) {
                        accepted |= 1ull << jt->second;
                    }
                }
                if (accepted != s.desc[it->second]) {
                    o.fail("acceptance: classes accepted where class " +
                           std::to_string(it->second) +
                           " is expected differ from its derived classes");
                }
            }
        }
        if (o.ok) {
            ReportModel rm = model_report(s);
            check_report(w, o, up, rm);
        }
    }
    // non-trivial: the presentation omits an indirect base of a class that
    // has >= 2 direct bases
    bool omits = false, incomplete = false;
    for (int k = 0; k < s.n; ++k) {
        std::uint64_t listed = 0;
        for (auto& r : s.recs) {
            if (r.cls == k) {
                for (int b : r.bases) {
                    listed |= 1ull << b;
                }
            }
        }
        std::uint64_t proper = s.anc[k] & ~(1ull << k);
        if ((listed & proper) != proper) {
            incomplete = true;
            if (s.bases[k].size() >= 2) {
                omits = true;
            }
        }
    }
    o.nontrivial = omits;
    common_classes(s, o);
    if (incomplete) {
        o.classes.push_back("incomplete_base_list");
    }
    if (s.recs.size() > std::size_t(s.n)) {
        o.classes.push_back("several_records_per_class");
    }
    return o;
}

inline Property prop_C08(const std::string& variant) {
    auto gen = [variant](Choice& ch, int size) {
        SpecCase c;
        c.cfg = pick_cfg(ch, {"chk_vec", "nohash_vec", "map"}, variant);
        GenOpts o;
        o.id_schemes = ids_for(need_config(c.cfg));
        o.lattice_bias = true;
        o.vp_anywhere = true;
        o.canonical_presentation = false;
        o.max_methods = 5;
        o.max_defs = 8;
        c.spec = gen_spec(ch, o, size);
        return c;
    };
    return make_spec_property("C08", variant, gen, run_presentation_case,
                              false);
}

inline std::optional<Property>
lookup_property(const std::string& id, const std::string& variant) {
    if (id == "C01") {
        return prop_C01(variant);
    }
    if (id == "C03") {
        return prop_C03(variant);
    }
    if (id == "C04") {
        return prop_C04(variant);
    }
    if (id == "C02") {
        return prop_C02(variant);
    }
    if (id == "C06") {
        return prop_C06(variant);
    }
    if (id == "C08") {
        return prop_C08(variant);
    }
    if (id == "C17") {
        return prop_C17(variant);
    }
    return std::nullopt;
}

} // namespace e1

#endif
