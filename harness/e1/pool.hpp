// Engine E1: synthetic registries.  One C++ class (Obj) impersonates every
// class of a run-time generated inheritance graph through a custom rtti facet;
// the real compiler, the real method<>::resolve / operator() and the real
// stock facets run on it.  This header is the per-policy (templated) part:
// the pool of method types and a type-erased Config the engine drives.
#ifndef VERIF_E1_POOL_HPP
#define VERIF_E1_POOL_HPP

#include <yorel/yomm2/core.hpp>
#include <yorel/yomm2/decode.hpp>

#include <cstdint>
#include <unistd.h>
#include <cstring>
#include <deque>
#include <memory>
#include <string>
#include <typeinfo>
#include <vector>

namespace e1 {

using namespace yorel::yomm2;
using yorel::yomm2::detail::types;

// ---------------------------------------------------------------------------
// The one real class.

struct Obj {
    explicit Obj(type_id id = 0) : id(id) {
    }
    virtual ~Obj() {
    }
    type_id id;
};

template<int I>
struct Tag {};

// ids of the `typeinfo` scheme: &typeid(Tag<i>)
type_id typeinfo_id(int i);

// ---------------------------------------------------------------------------
// rtti facets

struct synth_rtti : policy::rtti {
    template<typename T>
    static type_id static_type() {
        return reinterpret_cast<type_id>(&typeid(T));
    }

    template<typename T>
    static type_id dynamic_type(const T& obj) {
        if constexpr (std::is_base_of_v<Obj, T>) {
            return obj.id;
        } else {
            return reinterpret_cast<type_id>(&typeid(T));
        }
    }

    template<class Stream>
    static void type_name(type_id type, Stream& stream) {
        stream << "id(" << type << ")";
    }
};

// many-to-one projection: 8 alias ids per class
struct proj_rtti : synth_rtti {
    static type_id type_index(type_id type) {
        return type >> 3;
    }
};

// deferred ids: the static arrays hold functions until update runs
struct deferred_rtti : policy::deferred_static_rtti {
    template<typename T>
    static type_id static_type() {
        return reinterpret_cast<type_id>(&typeid(T));
    }

    template<typename T>
    static type_id dynamic_type(const T& obj) {
        if constexpr (std::is_base_of_v<Obj, T>) {
            return obj.id;
        } else {
            return reinterpret_cast<type_id>(&typeid(T));
        }
    }

    template<class Stream>
    static void type_name(type_id type, Stream& stream) {
        stream << "id(" << type << ")";
    }
};

// ---------------------------------------------------------------------------
// What a definition body records when it runs.

struct BodyRec {
    const void* method; // &Method::fn
    int def;            // index in the pool
    int nargs;
    std::uintptr_t a[6]; // Obj& -> address, int -> value, virtual_ptr -> get()
};

extern std::vector<BodyRec> g_log;

// ---------------------------------------------------------------------------
// Errors, normalised.

struct ErrorRec {
    enum Kind {
        none,
        generic,
        resolution,
        unknown_class,
        hash_search,
        method_table,
        static_slot,
        static_stride,
        call_error, // deprecated method_call_error route
        other_exception
    } kind = none;
    int status = 0; // resolution_error::status / method_call_error::code
    std::size_t arity = 0;
    type_id types[resolution_error::max_types] = {};
    type_id type = 0;         // unknown_class / method_table
    std::string method_name;  // resolution / call_error
    long actual = 0, expected = 0;
    type_id method = 0;
    std::size_t attempts = 0, buckets = 0;
    int deliveries = 0; // how many times the handler was entered
};

struct Thrown {
    ErrorRec rec;
};

extern int g_error_deliveries; // incremented by every handler entry

inline ErrorRec to_rec(const error_type& ev) {
    ErrorRec r;
    if (auto e = std::get_if<resolution_error>(&ev)) {
        r.kind = ErrorRec::resolution;
        r.status = e->status;
        r.arity = e->arity;
        r.method_name = std::string(e->method_name);
        std::memcpy(r.types, e->types, sizeof r.types);
    } else if (auto e = std::get_if<unknown_class_error>(&ev)) {
        r.kind = ErrorRec::unknown_class;
        r.type = e->type;
    } else if (auto e = std::get_if<hash_search_error>(&ev)) {
        r.kind = ErrorRec::hash_search;
        r.attempts = e->attempts;
        r.buckets = e->buckets;
    } else if (auto e = std::get_if<method_table_error>(&ev)) {
        r.kind = ErrorRec::method_table;
        r.type = e->type;
    } else if (auto e = std::get_if<static_slot_error>(&ev)) {
        r.kind = ErrorRec::static_slot;
        r.actual = e->actual;
        r.expected = e->expected;
        r.method = e->method;
    } else if (auto e = std::get_if<static_stride_error>(&ev)) {
        r.kind = ErrorRec::static_stride;
        r.actual = e->actual;
        r.expected = e->expected;
        r.method = e->method;
    } else {
        r.kind = ErrorRec::generic;
    }
    return r;
}

// Runs f, turning whatever the policy's error route throws into an ErrorRec.
template<class F>
ErrorRec guarded(F&& f) {
    try {
        f();
        return ErrorRec();
    } catch (const Thrown& t) {
        return t.rec;
    } catch (const error_type& ev) {
        return to_rec(ev);
    } catch (const resolution_error& e) {
        return to_rec(error_type(e));
    } catch (const unknown_class_error& e) {
        return to_rec(error_type(e));
    } catch (const hash_search_error& e) {
        return to_rec(error_type(e));
    } catch (const method_table_error& e) {
        return to_rec(error_type(e));
    } catch (const static_slot_error& e) {
        return to_rec(error_type(e));
    } catch (const static_stride_error& e) {
        return to_rec(error_type(e));
    } catch (const yorel::yomm2::error& e) {
        ErrorRec r;
        r.kind = ErrorRec::generic;
        return r;
    }
}

// ---------------------------------------------------------------------------
// Signature shapes

template<char... Cs>
struct shape {
    static constexpr std::size_t size = sizeof...(Cs);
    static constexpr char str[sizeof...(Cs) + 1] = {Cs..., 0};
};

template<class...>
struct tlist {};

using all_shapes = tlist<
    shape<'V'>, shape<'N', 'V'>, shape<'V', 'N'>, shape<'N', 'V', 'N'>,
    shape<'V', 'V'>, shape<'V', 'N', 'V'>, shape<'N', 'V', 'V'>,
    shape<'V', 'V', 'N'>, shape<'N', 'V', 'N', 'V', 'N'>,
    shape<'V', 'V', 'V'>, shape<'V', 'N', 'V', 'N', 'V'>,
    shape<'N', 'V', 'V', 'V'>, shape<'V', 'V', 'V', 'V'>,
    shape<'V', 'N', 'V', 'V', 'N', 'V'>, shape<'P'>, shape<'P', 'P'>,
    shape<'P', 'N', 'P'>, shape<'V', 'P'>>;

constexpr int NDEF = 16; // definition functions per method type
constexpr int NDEF_BIG = 96; // ... of the big-pool methods (key 3)
constexpr int MAXP = 6;  // parameters per signature

template<char C, class Pol>
struct param_of;
template<class Pol>
struct param_of<'V', Pol> {
    using type = virtual_<Obj&>;
};
template<class Pol>
struct param_of<'N', Pol> {
    using type = int;
};
template<class Pol>
struct param_of<'P', Pol> {
    using type = virtual_ptr<Obj, Pol>;
};

template<class Shape, int Key>
struct key_tag;

} // namespace e1

// Methods with key 2 read their slots and strides from run-time fillable
// static_offsets (C12).
namespace yorel::yomm2::detail {
template<class Shape, class Pol, class... A>
struct static_offsets<method<e1::key_tag<Shape, 2>, int(A...), Pol>> {
    // the shape of the generated specialisations: one slot per virtual
    // parameter, one stride per virtual parameter after the first (a dummy
    // for uni-methods, whose generated specialisation has no strides)
    static constexpr std::size_t N = arity<A...>;
    static inline std::size_t slots[N] = {};
    static inline std::size_t strides[N > 1 ? N - 1 : 1] = {};
};
} // namespace yorel::yomm2::detail

namespace e1 {

template<class Pol, class Shape, int Key>
struct method_of;

template<class Pol, char... Cs, int Key>
struct method_of<Pol, shape<Cs...>, Key> {
    using type = method<
        key_tag<shape<Cs...>, Key>, int(typename param_of<Cs, Pol>::type...),
        Pol>;
};

// ---------------------------------------------------------------------------
// Definitions

inline std::uintptr_t ident(Obj& o) {
    return reinterpret_cast<std::uintptr_t>(&o);
}
inline std::uintptr_t ident(int v) {
    return static_cast<std::uintptr_t>(v);
}
template<class Pol>
inline std::uintptr_t ident(const virtual_ptr<Obj, Pol>& p) {
    return reinterpret_cast<std::uintptr_t>(p.get());
}

inline int def_return(int def) {
    return def * 7 + 1;
}

template<class M, int I>
struct Def;

template<class K, class Pol, class... A, int I>
struct Def<method<K, int(A...), Pol>, I> {
    using M = method<K, int(A...), Pol>;
    static int fn(detail::remove_virtual<A>... a) {
        BodyRec r{&M::fn, I, int(sizeof...(A)), {ident(a)...}};
        g_log.push_back(r);
        return def_return(I);
    }
};

// ---------------------------------------------------------------------------
// Type-erased descriptors

struct MethodDesc {
    const char* shape;
    int key;
    int arity;
    bool has_static_offsets;
    detail::method_info* info; // == &Method::fn
    std::vector<void*> defs;   // what goes in definition_info::pf (real thunk)
    // objs[i] for V/P positions, ints[i] for N positions, vps[i] (optional,
    // may be null) pre-built virtual_ptr<Obj,Pol>* for P positions.
    void* (*resolve)(Obj** objs, int* ints, void** vps);
    int (*call)(Obj** objs, int* ints, void** vps);
    std::size_t* static_slots;   // run-time fillable, null without offsets
    std::size_t* static_strides;
};

struct UpdateOutcome {
    ErrorRec err; // kind == none when update returned
    std::shared_ptr<detail::generic_compiler> comp;
    detail::update_report report;
};

struct HashState {
    type_id mult;
    std::size_t shift, length, min, max;
    std::size_t control_size;
    const type_id* control;
};

// Pointer-based stand-in for the struct emitted by encode_dispatch_data; it
// satisfies the decoder's template interface.
struct DecodeData {
    struct {
        std::uint16_t* slots;
        std::uint16_t* vtbls;
    } encoded;
    std::uintptr_t* vtbls;
    std::uintptr_t* dtbls;
};

struct Config {
    std::string name;
    bool has_hash, checked, indirect, is_map, deferred, projection,
        call_error_route, throw_facet;
    std::vector<MethodDesc> pool;
    detail::class_catalog* classes;
    detail::method_catalog* methods;
    std::vector<std::uintptr_t>* dispatch_data;
    void (*reset)();
    void (*reset_runtime)(); // tables only, as in a fresh process
    UpdateOutcome (*update)();
    // dynamic lookup exactly as the policy does it (may throw through the
    // error route)
    const std::uintptr_t* (*dynamic_vptr)(const Obj&);
    std::size_t (*vptrs_size)();
    const std::uintptr_t* (*vptr_at)(std::size_t index); // vptr_vector only
    std::uintptr_t const* const* (*indirect_at)(std::size_t index);
    HashState (*hash_state)();
    type_id (*hash_type_id)(type_id);
    // virtual_ptr<Obj,Pol> handles
    void* (*vp_new)(Obj*);
    void* (*vp_copy)(void*);
    void (*vp_del)(void*);
    const std::uintptr_t* (*vp_vptr)(void*);
    Obj* (*vp_get)(void*);
    // handler control (vectored_error / call_error): mode 0 = throw a copy,
    // 1 = return (library must abort), 2 = library default, 3 = a second
    // throwing handler, 5 = marker that ends the process with status 49
    void (*set_handler_mode)(int);
    int* deliveries; // entries into this policy's own handler
    void (*decode)(DecodeData&);
    type_id static_type_obj; // static_type<Obj>() of the policy
};

std::vector<Config*>& configs();

// ---------------------------------------------------------------------------
// Per-policy implementation

template<class Pol>
struct Impl {
    using VP = virtual_ptr<Obj, Pol>;

    template<class M>
    struct Inv;

    template<class K, class... A>
    struct Inv<method<K, int(A...), Pol>> {
        using M = method<K, int(A...), Pol>;

        template<class T>
        static decltype(auto) arg(Obj* o, int& n, void* vp) {
            if constexpr (std::is_same_v<T, virtual_<Obj&>>) {
                return static_cast<Obj&>(*o);
            } else if constexpr (std::is_same_v<T, int>) {
                return static_cast<int>(n);
            } else {
                if (vp) {
                    return VP(*static_cast<VP*>(vp));
                }
                return VP(*o);
            }
        }

        template<class T>
        static decltype(auto) rarg(Obj* o, int& n, void* vp) {
            if constexpr (std::is_same_v<T, virtual_<Obj&>>) {
                return static_cast<const Obj&>(*o);
            } else if constexpr (std::is_same_v<T, int>) {
                return static_cast<const int&>(n);
            } else {
                if (vp) {
                    return VP(*static_cast<VP*>(vp));
                }
                return VP(*o);
            }
        }

        template<std::size_t... Is>
        static int
        call_(Obj** o, int* n, void** vp, std::index_sequence<Is...>) {
            return M::fn(arg<A>(o[Is], n[Is], vp ? vp[Is] : nullptr)...);
        }

        static int call(Obj** o, int* n, void** vp) {
            return call_(o, n, vp, std::index_sequence_for<A...>());
        }

        template<std::size_t... Is>
        static void*
        resolve_(Obj** o, int* n, void** vp, std::index_sequence<Is...>) {
            return (void*)M::fn.resolve(
                rarg<A>(o[Is], n[Is], vp ? vp[Is] : nullptr)...);
        }

        static void* resolve(Obj** o, int* n, void** vp) {
            return resolve_(o, n, vp, std::index_sequence_for<A...>());
        }

        template<int I>
        static void* thunk_of() {
            return (void*)detail::thunk<
                Pol, int(A...), Def<M, I>::fn,
                types<detail::remove_virtual<A>...>>::fn;
        }

        template<int... Is>
        static void fill(MethodDesc& d, std::integer_sequence<int, Is...>) {
            d.defs = {thunk_of<Is>()...};
        }
    };

    template<class Shape, int Key>
    static MethodDesc describe() {
        using M = typename method_of<Pol, Shape, Key>::type;
        MethodDesc d{};
        d.shape = Shape::str;
        d.key = Key;
        d.arity = int(M::arity);
        d.info = &M::fn;
        Inv<M>::fill(
            d, std::make_integer_sequence<int, Key == 3 ? NDEF_BIG : NDEF>());
        d.resolve = &Inv<M>::resolve;
        d.call = &Inv<M>::call;
        d.has_static_offsets = detail::has_static_offsets<M>::value;
        if constexpr (detail::has_static_offsets<M>::value) {
            d.static_slots = detail::static_offsets<M>::slots;
            d.static_strides = detail::static_offsets<M>::strides;
        }
        return d;
    }

    template<int NKeys, class... Shapes>
    static void fill_pool(std::vector<MethodDesc>& pool, tlist<Shapes...>) {
        (..., (pool.push_back(describe<Shapes, 0>()),
               pool.push_back(describe<Shapes, 1>())));
        if constexpr (NKeys > 2) {
            (..., pool.push_back(describe<Shapes, 2>()));
        }
        // two methods with a pool of 96 definitions: more definitions than
        // bits in a machine word
        pool.push_back(describe<shape<'V', 'V'>, 3>());
        pool.push_back(describe<shape<'V', 'V', 'V'>, 3>());
    }

    static inline int handler_mode = 0;
    static inline int deliveries = 0;

    static void reset() {
        using namespace policy;
        Pol::classes.clear();
        Pol::methods.clear();
        for (auto& d : self().pool) {
            d.info->specs.clear();
        }
        reset_runtime();
        set_handler_mode(0);
    }

    static void reset_runtime() {
        using namespace policy;
        Pol::dispatch_data.clear();
        if constexpr (has_facet<Pol, external_vptr>) {
            Pol::vptrs.clear();
        }
        if constexpr (has_facet<Pol, indirect_vptr>) {
            Pol::indirect_vptrs.clear();
        }
        if constexpr (has_facet<Pol, type_hash>) {
            Pol::hash_mult = 0;
            Pol::hash_shift = 0;
            Pol::hash_length = 0;
            Pol::hash_min = 0;
            Pol::hash_max = 0;
        }
        if constexpr (has_facet<Pol, runtime_checks>) {
            Pol::control.clear();
        }
    }

    template<class P, typename = void>
    struct has_call_error : std::false_type {};
    template<class P>
    struct has_call_error<P, std::void_t<decltype(P::call_error)>>
        : std::true_type {};

    template<class P, typename = void>
    struct has_vectored : std::false_type {};
    template<class P>
    struct has_vectored<
        P, std::void_t<decltype(P::error = error_handler_type())>>
        : std::true_type {};

    static void call_error_thrower(
        const method_call_error& error, std::size_t arity, type_id* ids) {
        ++g_error_deliveries;
        ++deliveries;
        Thrown t;
        t.rec.kind = ErrorRec::call_error;
        t.rec.status = error.code;
        t.rec.arity = arity;
        t.rec.method_name = std::string(error.method_name);
        for (std::size_t i = 0; i < arity && i < resolution_error::max_types;
             ++i) {
            t.rec.types[i] = ids[i];
        }
        throw t;
    }

    // a second, distinguishable throwing handler (mode 3)
    static void call_error_thrower2(
        const method_call_error&, std::size_t, type_id*) {
        ++g_error_deliveries;
        ++deliveries;
        Thrown t;
        t.rec.kind = ErrorRec::other_exception;
        throw t;
    }

    static void call_error_returner(
        const method_call_error&, std::size_t, type_id*) {
        ++g_error_deliveries;
    }

    static void call_error_marker(
        const method_call_error&, std::size_t, type_id*) {
        _exit(49);
    }

    static void set_handler_mode(int mode) {
        handler_mode = mode;
        if constexpr (has_call_error<Pol>::value) {
            static const auto default_error = Pol::error;
            static const auto default_call_error = Pol::call_error;
            if (self().call_error_route) {
                Pol::error = default_error;
                Pol::call_error = mode == 0 ? call_error_thrower
                    : mode == 1             ? call_error_returner
                    : mode == 3             ? call_error_thrower2
                    : mode == 5             ? call_error_marker
                                            : default_call_error;
                return;
            }
        }
        if constexpr (has_vectored<Pol>::value) {
            static const auto default_error = Pol::error;
            if (mode == 0) {
                Pol::error = [](const error_type& ev) {
                    ++g_error_deliveries;
                    ++deliveries;
                    throw ev;
                };
            } else if (mode == 3) {
                // a second, distinguishable throwing handler
                Pol::error = [](const error_type&) {
                    ++g_error_deliveries;
                    ++deliveries;
                    Thrown t;
                    t.rec.kind = ErrorRec::other_exception;
                    throw t;
                };
            } else if (mode == 1) {
                Pol::error = [](const error_type&) { ++g_error_deliveries; };
            } else if (mode == 5) {
                // marker (forked probes): this handler must never be reached
                Pol::error = [](const error_type&) { _exit(49); };
            } else {
                Pol::error = default_error;
            }
        }
    }

    static UpdateOutcome update() {
        UpdateOutcome out;
        std::shared_ptr<detail::compiler<Pol>> comp;
        out.err = guarded([&] {
            comp = std::make_shared<detail::compiler<Pol>>(
                yorel::yomm2::update<Pol>());
        });
        if (comp) {
            out.report = comp->report;
            out.comp = comp;
        }
        return out;
    }

    static Config& self() {
        static Config cfg;
        return cfg;
    }

    template<int NKeys>
    static Config* make(const char* name, bool call_error_route = false) {
        using namespace policy;
        Config& c = self();
        c.name = name;
        c.has_hash = has_facet<Pol, type_hash>;
        c.checked = has_facet<Pol, runtime_checks>;
        c.indirect = has_facet<Pol, indirect_vptr>;
        c.deferred = std::is_base_of_v<deferred_static_rtti, Pol>;
        c.projection = std::is_base_of_v<proj_rtti, Pol>;
        c.call_error_route = call_error_route;
        c.throw_facet = std::is_base_of_v<policy::throw_error, Pol>;
        c.is_map = !std::is_base_of_v<vptr_vector<Pol>, Pol>;
        fill_pool<NKeys>(c.pool, all_shapes());
        c.classes = &Pol::classes;
        c.methods = &Pol::methods;
        c.dispatch_data = &Pol::dispatch_data;
        c.reset = &reset;
        c.reset_runtime = &reset_runtime;
        c.update = &update;
        c.dynamic_vptr = [](const Obj& o) -> const std::uintptr_t* {
            return Pol::dynamic_vptr(o);
        };
        c.vptrs_size = []() -> std::size_t { return Pol::vptrs.size(); };
        c.vptr_at = [](std::size_t i) -> const std::uintptr_t* {
            if constexpr (std::is_base_of_v<vptr_vector<Pol>, Pol>) {
                return Pol::vptrs[i];
            } else {
                return nullptr;
            }
        };
        c.indirect_at = [](std::size_t i) -> std::uintptr_t const* const* {
            if constexpr (has_facet<Pol, indirect_vptr>) {
                return Pol::indirect_vptrs[i];
            } else {
                return nullptr;
            }
        };
        c.hash_state = []() -> HashState {
            HashState h{};
            if constexpr (has_facet<Pol, type_hash>) {
                h.mult = Pol::hash_mult;
                h.shift = Pol::hash_shift;
                h.length = Pol::hash_length;
                h.min = Pol::hash_min;
                h.max = Pol::hash_max;
            }
            if constexpr (has_facet<Pol, runtime_checks>) {
                h.control_size = Pol::control.size();
                h.control = Pol::control.data();
            }
            return h;
        };
        c.hash_type_id = [](type_id id) -> type_id {
            if constexpr (has_facet<Pol, type_hash>) {
                return Pol::hash_type_id(id);
            } else {
                return id;
            }
        };
        c.vp_new = [](Obj* o) -> void* { return new VP(*o); };
        c.vp_copy = [](void* p) -> void* {
            return new VP(*static_cast<VP*>(p));
        };
        c.vp_del = [](void* p) { delete static_cast<VP*>(p); };
        c.vp_vptr = [](void* p) { return static_cast<VP*>(p)->_vptr(); };
        c.vp_get = [](void* p) { return static_cast<VP*>(p)->get(); };
        c.set_handler_mode = &set_handler_mode;
        c.deliveries = &deliveries;
        c.decode = [](DecodeData& d) { decode_dispatch_data<Pol>(d); };
        c.static_type_obj = Pol::template static_type<Obj>();
        configs().push_back(&c);
        return &c;
    }
};

} // namespace e1


#endif
