// C10: RTTI flavours.  C15: unregistered classes under checked policies.
#include "props.hpp"

namespace e1 {

// ---------------------------------------------------------------------------
// C10

struct FlavourCase {
    Spec spec; // with aliases, used as is by the projection flavours
    std::vector<std::string> flavours;
    int updates = 1;
};

static json to_json(const FlavourCase& c) {
    return {{"spec", to_json(c.spec)},
            {"flavours", c.flavours},
            {"updates", c.updates}};
}

static FlavourCase flavour_from_json(const json& j) {
    FlavourCase c;
    c.spec = spec_from_json(j.at("spec"));
    c.flavours = j.at("flavours").get<std::vector<std::string>>();
    c.updates = j.value("updates", 1);
    return c;
}

static Spec strip_aliases(const Spec& s) {
    Spec r = s;
    for (auto& rec : r.recs) {
        rec.alias = 0;
        rec.base_alias.clear();
    }
    for (auto& m : r.meths) {
        m.vp_alias.clear();
        for (auto& d : m.defs) {
            d.alias.clear();
        }
    }
    return r;
}

static std::vector<int> aliases_of(const Spec& s, int c) {
    std::vector<int> v;
    for (auto& r : s.recs) {
        if (r.cls == c && std::find(v.begin(), v.end(), r.alias) == v.end()) {
            v.push_back(r.alias);
        }
    }
    return v;
}

static void gen_aliases(Choice& ch, Spec& s) {
    for (auto& r : s.recs) {
        r.alias = ch.draw(8);
    }
    auto pick = [&](int c) {
        auto v = aliases_of(s, c);
        return v[ch.draw(v.size())];
    };
    for (auto& r : s.recs) {
        r.base_alias.clear();
        for (int b : r.bases) {
            r.base_alias.push_back(pick(b));
        }
    }
    for (auto& m : s.meths) {
        m.vp_alias.clear();
        for (int c : m.vp) {
            m.vp_alias.push_back(pick(c));
        }
        for (auto& d : m.defs) {
            d.alias.clear();
            for (int c : d.cls) {
                d.alias.push_back(pick(c));
            }
        }
    }
}

static Outcome run_flavours(const FlavourCase& c) {
    Outcome o;
    vf::Fnv h;
    hash_spec(h, c.spec);
    for (auto& f : c.flavours) {
        h.add(f);
    }
    h.add(c.updates);
    o.hash = h.h;
    Obs ref;
    bool have_ref = false;
    std::string ref_name;
    int max_aliases = 1;
    for (int k = 0; k < c.spec.n; ++k) {
        max_aliases =
            std::max<int>(max_aliases, int(aliases_of(c.spec, k).size()));
    }
    bool multi = false;
    for (auto& m : c.spec.meths) {
        multi |= m.vp.size() >= 2;
    }
    bool any_proj = false;
    for (auto& f : c.flavours) {
        if (!o.ok) {
            break;
        }
        Config& cfg = need_config(f);
        Spec s = cfg.projection ? c.spec : strip_aliases(c.spec);
        any_proj |= cfg.projection;
        World w(cfg, s);
        w.register_all();
        UpdateOutcome up;
        bool updated = true;
        for (int u = 0; u < c.updates && updated; ++u) {
            Outcome ou;
            updated = do_update(w, ou, up);
            if (!updated) {
                if (!ou.ok) {
                    o.fail("rtti-" + ou.message + " under " + f +
                           " (update #" + std::to_string(u + 1) + ")");
                } else {
                    o.inconclusive = true;
                }
            }
        }
        if (!updated) {
            if (o.ok) {
                return o; // hash search failure: nothing to compare
            }
            break;
        }
        int rounds = cfg.projection ? max_aliases : 1;
        for (int k = 0; k < rounds && o.ok; ++k) {
            w.select_alias(k);
            DispatchStats ds;
            Outcome oc;
            check_dispatch(w, oc, ds, k == 0, 2);
            NextStats ns;
            if (oc.ok && k == 0) {
                check_next(w, oc, ns);
            }
            if (!oc.ok) {
                o.fail("rtti-" + oc.message + " under " + f +
                       (cfg.projection
                            ? " with alias ids #" + std::to_string(k)
                            : ""));
                break;
            }
            Obs obs = observe(w);
            if (!have_ref) {
                ref = obs;
                have_ref = true;
                ref_name = f;
            } else {
                auto d = diff_obs(ref, obs);
                if (!d.empty()) {
                    o.fail("rtti-differ: " + ref_name + " and " + f +
                           " dispatch differently: " + d);
                }
            }
        }
        o.classes.push_back(cfg.name.c_str());
    }
    o.nontrivial = multi || (any_proj && max_aliases >= 2) || c.updates >= 2;
    common_classes(c.spec, o);
    if (any_proj && max_aliases >= 2) {
        o.classes.push_back("class_with_2+_alias_ids");
    }
    if (c.updates >= 2) {
        o.classes.push_back("2+_updates");
    }
    return o;
}

static FlavourCase gen_flavours(Choice& ch, int size) {
    FlavourCase c;
    GenOpts o;
    o.id_schemes = {"small"};
    o.max_classes = 9;
    o.canonical_presentation = ch.chance(1, 2);
    // keys < 2 only (every flavour has them)
    c.spec = gen_spec(ch, o, size);
    gen_aliases(ch, c.spec);
    static const std::vector<std::string> others = {
        "map",      "nohash_vec",   "proj_chk",        "proj_map",
        "deferred_chk", "deferred_nohash", "proj_chk_ind"};
    c.flavours.push_back("chk_vec");
    int k = 2 + ch.draw(2);
    auto pool = others;
    for (int i = 0; i < k; ++i) {
        std::size_t j = ch.draw(pool.size());
        c.flavours.push_back(pool[j]);
        pool.erase(pool.begin() + j);
    }
    c.updates = 1 + ch.draw(3);
    return c;
}

Property prop_C10(const std::string& variant) {
    Property p;
    p.id = "C10";
    p.variant = variant;
    p.generate = [](Choice& ch, int size) {
        return to_json(gen_flavours(ch, size));
    };
    p.run = [](const json& j) { return run_flavours(flavour_from_json(j)); };
    p.fast = [](Choice& ch, int size, std::function<json()>& lazy) {
        auto c = std::make_shared<FlavourCase>(gen_flavours(ch, size));
        lazy = [c]() { return to_json(*c); };
        return run_flavours(*c);
    };
    p.shrinks = [](const json& j) {
        FlavourCase c = flavour_from_json(j);
        std::vector<json> out;
        for (std::size_t i = 0; i < c.flavours.size() && c.flavours.size() > 1;
             ++i) {
            FlavourCase r = c;
            r.flavours.erase(r.flavours.begin() + i);
            out.push_back(to_json(r));
        }
        if (c.updates > 1) {
            FlavourCase r = c;
            r.updates--;
            out.push_back(to_json(r));
        }
        for (auto& s : spec_shrinks(c.spec, false)) {
            FlavourCase r = c;
            r.spec = s;
            out.push_back(to_json(r));
        }
        {
            FlavourCase r = c;
            r.spec = strip_aliases(c.spec);
            if (to_json(r.spec) != to_json(c.spec)) {
                out.push_back(to_json(r));
            }
        }
        return out;
    };
    return p;
}

// ---------------------------------------------------------------------------
// C15

struct UnregCase {
    SpecCase base; // the full registry, including the class left out
    int left_out = 0;
    std::string use; // base | method_param | def_param | dynamic
    // dynamic only: the class was registered for an earlier update and its
    // registration was removed since (a class is unregistered when its
    // registration objects are destroyed, e.g. with a shared library)
    bool was_registered = false;
};

static json to_json(const UnregCase& c) {
    json j = to_json(c.base);
    j["left_out"] = c.left_out;
    j["use"] = c.use;
    j["was_registered"] = c.was_registered;
    return j;
}

static UnregCase unreg_from_json(const json& j) {
    UnregCase c;
    c.base = spec_case_from_json(j);
    c.left_out = j.at("left_out");
    c.use = j.at("use");
    c.was_registered = j.value("was_registered", false);
    return c;
}

// the registry actually registered: everything but the records of L
static Spec without_records_of(const Spec& s, int L) {
    Spec r = s;
    r.recs.clear();
    for (auto& rec : s.recs) {
        if (rec.cls != L) {
            r.recs.push_back(rec);
        }
    }
    return r;
}

static bool mentions(const Spec& s, int L, const std::string& where) {
    if (where == "base") {
        for (auto& r : s.recs) {
            if (r.cls != L &&
                std::find(r.bases.begin(), r.bases.end(), L) != r.bases.end()) {
                return true;
            }
        }
    } else if (where == "method_param") {
        for (auto& m : s.meths) {
            if (std::find(m.vp.begin(), m.vp.end(), L) != m.vp.end()) {
                return true;
            }
        }
    } else if (where == "def_param") {
        for (auto& m : s.meths) {
            for (auto& d : m.defs) {
                if (std::find(d.cls.begin(), d.cls.end(), L) != d.cls.end()) {
                    return true;
                }
            }
        }
    }
    return false;
}

static Outcome run_unreg(const UnregCase& c) {
    Outcome o;
    vf::Fnv h;
    h.add(hash_case(c.base));
    h.add(c.left_out);
    h.add(c.use);
    h.add(int(c.was_registered));
    o.hash = h.h;
    Config& cfg = need_config(c.base.cfg);
    const Spec& s = c.base.spec;
    int L = c.left_out;
    Spec reg = without_records_of(s, L);
    bool used_statically = mentions(s, L, "base") ||
        mentions(s, L, "method_param") || mentions(s, L, "def_param");
    bool prior = c.was_registered && c.use == "dynamic" && !used_statically;
    World w(cfg, prior ? s : reg);
    w.register_all();
    type_id lid = w.objs[L].id;
    if (prior) {
        // an earlier update knew the class; its records are then removed
        UpdateOutcome up0 = cfg.update();
        if (up0.err.kind == ErrorRec::hash_search) {
            o.inconclusive = true;
            return o;
        }
        if (up0.err.kind != ErrorRec::none) {
            o.fail("unreg-prior-update: update of the complete registry "
                   "reported " + err_name(up0.err));
            return o;
        }
        for (std::size_t r = 0; r < s.recs.size(); ++r) {
            if (s.recs[r].cls == L) {
                w.unregister_class(r);
            }
        }
        o.classes.push_back("left_out_was_registered_before");
    }
    g_log.clear();
    UpdateOutcome up = cfg.update();
    if (up.err.kind == ErrorRec::hash_search) {
        o.inconclusive = true;
        return o;
    }
    if (c.use != "dynamic") {
        if (!used_statically) {
            return o; // shrunk away: nothing to diagnose
        }
        if (up.err.kind != ErrorRec::unknown_class) {
            o.fail("unreg-update: class " + std::to_string(L) +
                   " is used as " + c.use +
                   " but not registered, and update " +
                   (up.err.kind == ErrorRec::none
                        ? std::string("returned normally")
                        : "reported " + err_name(up.err)));
            return o;
        }
        if (up.err.type != lid) {
            o.fail("unreg-update-type: update reported unknown class " +
                   std::to_string(up.err.type) + ", the class left out has id " +
                   std::to_string(lid));
        }
        o.nontrivial = c.use != "base";
        o.classes.push_back(
            c.use == "base"               ? "left_out_base"
                : c.use == "method_param" ? "left_out_method_param"
                                          : "left_out_def_param");
        return o;
    }
    if (used_statically) {
        return o; // not this case's subject
    }
    if (up.err.kind != ErrorRec::none) {
        o.fail("unreg-update-error: update reported " + err_name(up.err) +
               " although every class used statically is registered");
        return o;
    }
    bool late_position = false, vp_route = false, forked = false;
    int calls = 0;
    for (std::size_t m = 0; m < w.meths.size() && o.ok; ++m) {
        auto& mi = w.meths[m];
        const MethSpec& ms = *mi.ms;
        const char* str = shape_table()[ms.shape].str;
        Tuples tu(s, ms, 600);
        while (tu.next() && o.ok) {
            const int* t = tu.t.data();
            int first = -1;
            for (std::size_t i = 0; i < ms.vp.size(); ++i) {
                if (t[i] == L && first < 0) {
                    first = int(i);
                }
            }
            if (first < 0) {
                continue;
            }
            ++calls;
            auto args = w.make_args(ms, t, calls);
            g_log.clear();
            int before = g_error_deliveries;
            ErrorRec e = guarded(
                [&] { mi.desc->call(args.objs, args.ints, nullptr); });
            std::string where = w.describe_tuple(m, t);
            if (!g_log.empty()) {
                o.fail("unreg-body-ran: " + where + " passes an object of the "
                       "unregistered class " + std::to_string(L) +
                       " and a definition body ran");
                break;
            }
            if (e.kind != ErrorRec::unknown_class) {
                o.fail("unreg-call: " + where + " passes an object of the "
                       "unregistered class " + std::to_string(L) + ": got " +
                       err_name(e) + " instead of unknown_class");
                break;
            }
            if (e.type != lid) {
                o.fail("unreg-call-type: " + where + ": unknown_class carries " +
                       std::to_string(e.type) + ", the class has id " +
                       std::to_string(lid));
                break;
            }
            if (g_error_deliveries - before != 1) {
                o.fail("unreg-deliveries: " + where + ": handler entered " +
                       std::to_string(g_error_deliveries - before) + " times");
                break;
            }
            // a handler that returns does not make the call go through:
            // the program aborts (forked child, one call in eight, at most
            // once per case)
            if (!forked && !cfg.throw_facet && (calls % 8) == 1) {
                forked = true;
                fflush(nullptr);
                pid_t pid = fork();
                if (pid == 0) {
                    int devnull = open("/dev/null", O_WRONLY);
                    if (devnull >= 0) {
                        dup2(devnull, 2);
                    }
                    signal(SIGABRT, sigabrt_probe);
                    cfg.set_handler_mode(1);
                    g_log.clear();
                    try {
                        mi.desc->call(args.objs, args.ints, nullptr);
                    } catch (...) {
                        _exit(44);
                    }
                    _exit(g_log.empty() ? 45 : 46);
                }
                int status = 0;
                waitpid(pid, &status, 0);
                int code = WIFEXITED(status) ? WEXITSTATUS(status) : -1;
                if (code != 42) {
                    o.fail("unreg-no-abort: " + where + " passes an object "
                           "of the unregistered class " + std::to_string(L) +
                           "; the handler returned and instead of aborting " +
                           (code == 46      ? "a definition body ran"
                                : code == 45 ? "the call returned"
                                : code == 44
                                ? "an exception escaped"
                                : "the child ended with status " +
                                    std::to_string(status)));
                    break;
                }
                o.classes.push_back("unregistered_call_returning_handler");
            }
            late_position |= first >= 1;
            // which route carried the unregistered object?
            int vi = 0;
            for (int p = 0; str[p]; ++p) {
                if (str[p] != 'N') {
                    if (vi == first && str[p] == 'P') {
                        vp_route = true;
                    }
                    ++vi;
                }
            }
        }
    }
    o.nontrivial = calls > 0 && (late_position || vp_route);
    if (calls) {
        o.classes.push_back("dynamic_unregistered_call");
    }
    if (vp_route) {
        o.classes.push_back("via_virtual_ptr_from_base_ref");
    }
    if (late_position) {
        o.classes.push_back("unregistered_at_position_2+");
    }
    o.classes.push_back(cfg.name.c_str());
    return o;
}

static UnregCase gen_unreg(Choice& ch, int size, const std::string& variant) {
    UnregCase c;
    c.base.cfg = pick_cfg(
        ch, {"chk_vec", "chk_vec_ind", "proj_chk", "deferred_chk"}, variant);
    GenOpts o;
    o.id_schemes = ids_for(need_config(c.base.cfg));
    o.max_classes = 9;
    o.max_defs = 6;
    Spec& s = c.base.spec;
    s = gen_spec(ch, o, std::max(size, 15));
    static const char* uses[] = {"dynamic", "dynamic", "dynamic",
                                 "base",    "method_param", "def_param"};
    c.use = uses[ch.draw(6)];
    // leaves: classes nobody derives from
    std::vector<int> leaves, nonroot_leaves, with_derived;
    for (int k = 0; k < s.n; ++k) {
        bool leaf = __builtin_popcountll(s.desc[k]) == 1;
        if (leaf) {
            leaves.push_back(k);
            if (!s.bases[k].empty()) {
                nonroot_leaves.push_back(k);
            }
        } else {
            with_derived.push_back(k);
        }
    }
    auto drop_mentions = [&](int L, bool from_methods, bool from_defs) {
        for (std::size_t m = 0; m < s.meths.size();) {
            auto& ms = s.meths[m];
            if (from_methods &&
                std::find(ms.vp.begin(), ms.vp.end(), L) != ms.vp.end()) {
                s.meths.erase(s.meths.begin() + m);
                continue;
            }
            if (from_defs) {
                for (std::size_t d = 0; d < ms.defs.size();) {
                    auto& dc = ms.defs[d].cls;
                    if (std::find(dc.begin(), dc.end(), L) != dc.end()) {
                        ms.defs.erase(ms.defs.begin() + d);
                    } else {
                        ++d;
                    }
                }
            }
            ++m;
        }
    };
    if (c.use == "base" && !with_derived.empty()) {
        c.left_out = with_derived[ch.draw(with_derived.size())];
        drop_mentions(c.left_out, true, true);
    } else if (c.use == "method_param") {
        c.left_out = leaves[ch.draw(leaves.size())];
        drop_mentions(c.left_out, false, true);
        // make sure some method has it as a parameter
        if (!mentions(s, c.left_out, "method_param") && !s.meths.empty()) {
            auto& ms = s.meths[ch.draw(s.meths.size())];
            std::size_t pos = ch.draw(ms.vp.size());
            ms.vp[pos] = c.left_out;
            ms.defs.clear(); // definitions may no longer fit
        }
    } else if (c.use == "def_param") {
        c.left_out = leaves[ch.draw(leaves.size())];
        drop_mentions(c.left_out, true, false);
        if (!mentions(s, c.left_out, "def_param")) {
            // add a definition mentioning it to a method that accepts it
            for (auto& ms : s.meths) {
                for (std::size_t pos = 0; pos < ms.vp.size(); ++pos) {
                    if (s.isa(c.left_out, ms.vp[pos]) && ms.defs.size() < 15 &&
                        !mentions(s, c.left_out, "def_param")) {
                        DefSpec d;
                        d.cls = ms.vp;
                        d.cls[pos] = c.left_out;
                        std::vector<int> used;
                        for (auto& e : ms.defs) {
                            used.push_back(e.fn);
                        }
                        for (int f = 0; f < NDEF; ++f) {
                            if (std::find(used.begin(), used.end(), f) ==
                                used.end()) {
                                d.fn = f;
                                break;
                            }
                        }
                        ms.defs.push_back(d);
                    }
                }
            }
        }
    } else {
        c.use = "dynamic";
        auto& pool = nonroot_leaves.empty() ? leaves : nonroot_leaves;
        c.left_out = pool[ch.draw(pool.size())];
        drop_mentions(c.left_out, true, true);
        // the leaf is nobody's listed base by construction
        c.was_registered = ch.chance(1, 3);
    }
    return c;
}

Property prop_C15(const std::string& variant) {
    Property p;
    p.id = "C15";
    p.variant = variant;
    p.generate = [variant](Choice& ch, int size) {
        return to_json(gen_unreg(ch, size, variant));
    };
    p.run = [](const json& j) { return run_unreg(unreg_from_json(j)); };
    p.fast = [variant](Choice& ch, int size, std::function<json()>& lazy) {
        auto c = std::make_shared<UnregCase>(gen_unreg(ch, size, variant));
        lazy = [c]() { return to_json(*c); };
        return run_unreg(*c);
    };
    p.shrinks = [](const json& j) {
        UnregCase c = unreg_from_json(j);
        std::vector<json> out;
        const Spec& s = c.base.spec;
        // drop methods / definitions / other classes, keeping L's index valid
        for (std::size_t i = 0; i < s.meths.size(); ++i) {
            UnregCase r = c;
            r.base.spec.meths.erase(r.base.spec.meths.begin() + i);
            out.push_back(to_json(r));
            for (std::size_t d = 0; d < s.meths[i].defs.size(); ++d) {
                UnregCase q = c;
                q.base.spec.meths[i].defs.erase(
                    q.base.spec.meths[i].defs.begin() + d);
                out.push_back(to_json(q));
            }
        }
        for (int k = s.n - 1; k >= 0; --k) {
            if (k == c.left_out || s.n <= 1) {
                continue;
            }
            UnregCase r = c;
            r.base.spec = remove_class(s, k);
            canonical_presentation(r.base.spec);
            if (k < c.left_out) {
                r.left_out--;
            }
            out.push_back(to_json(r));
        }
        if (c.base.cfg != "chk_vec") {
            UnregCase r = c;
            r.base.cfg = "chk_vec";
            out.push_back(to_json(r));
        }
        return out;
    };
    return p;
}

} // namespace e1
