// libFuzzer entry point over the E1 properties: the bytes drive the same
// structure-aware generators as rapidcheck does (BytesChoice), the same
// oracles decide.  A failing case is written as a replay file next to
// libFuzzer's own artifact before trapping.
#include "props.hpp"

#include <cstdio>

namespace e1 {

std::vector<BodyRec> g_log;
int g_error_deliveries;
type_id g_deferred_ids[MAXCLS * 8];

std::vector<Config*>& configs() {
    static std::vector<Config*> v;
    return v;
}

template<int... Is>
static const std::type_info* const* tag_infos(std::integer_sequence<int, Is...>) {
    static const std::type_info* const t[] = {&typeid(Tag<Is>)...};
    return t;
}

type_id typeinfo_id(int i) {
    return reinterpret_cast<type_id>(
        tag_infos(std::make_integer_sequence<int, 64>())[i & 63]);
}

deferred_fn deferred_function(int) {
    return nullptr; // no deferred configuration in the fuzz build
}

} // namespace e1

static std::uint64_t g_execs = 0, g_nontrivial = 0;

extern "C" int LLVMFuzzerTestOneInput(const std::uint8_t* data, std::size_t size) {
    using namespace e1;
    static const char* props[] = {"C01", "C03", "C04", "C17", "C08", "C06"};
    static const char* cfgs[] = {"chk_vec", "map", "nohash_vec", "fast_vec"};
    static std::vector<vf::Property> table = [] {
        std::vector<vf::Property> t;
        for (auto c : cfgs) {
            t.push_back(prop_C01(c));
            t.push_back(prop_C03(c));
            t.push_back(prop_C04(c));
            t.push_back(prop_C17(c == std::string("fast_vec") ? "chk_vec" : c));
            t.push_back(prop_C08(c == std::string("fast_vec") ? "chk_vec" : c));
            t.push_back(prop_C06(c == std::string("fast_vec") ? "chk_vec" : c));
        }
        return t;
    }();
    (void)props;
    // libFuzzer ends with exit(): the pool's static method objects were
    // detached from their catalogs and must not be destroyed
    static bool once = [] {
        std::atexit([] {
            fflush(nullptr);
            _exit(0);
        });
        return true;
    }();
    (void)once;
    vf::BytesChoice ch(data, size);
    auto& prop = table[ch.draw(std::uint32_t(table.size()))];
    int gsize = 1 + int(ch.draw(60));
    std::function<vf::json()> lazy;
    vf::Outcome o;
    if (const char* dump = getenv("VERIF_FUZZ_DUMP")) {
        // triage of a crashing input: record the decoded case before running
        vf::json c = prop.generate(ch, gsize);
        vf::save_json(dump, {{"property", prop.id},
                             {"variant", prop.variant},
                             {"engine", "e1"},
                             {"case", c},
                             {"message", "crash"},
                             {"crash", true}});
        o = prop.run(c);
        lazy = [c]() { return c; };
    } else {
        o = prop.fast(ch, gsize, lazy);
    }
    ++g_execs;
    g_nontrivial += o.nontrivial;
    if (!o.ok && o.excluded.empty()) {
        vf::json fl = {{"property", prop.id},
                       {"variant", prop.variant},
                       {"engine", "e1"},
                       {"case", lazy()},
                       {"message", o.message}};
        const char* dir = getenv("VERIF_FUZZ_OUT");
        std::string path = std::string(dir ? dir : ".") + "/fuzz-failure-" +
            std::to_string(o.hash) + ".json";
        vf::save_json(path, fl);
        fprintf(stderr, "FUZZ-FAILURE %s %s\n", path.c_str(),
                o.message.c_str());
        __builtin_trap();
    }
    return 0;
}
