// Observation and oracle comparison functions shared by the E1 properties.
#ifndef VERIF_E1_CHECKS_HPP
#define VERIF_E1_CHECKS_HPP

#include "synth.hpp"

#include <sstream>

namespace e1 {

using vf::Outcome;

inline std::string err_name(const ErrorRec& e) {
    static const char* names[] = {"none",          "generic",
                                  "resolution",    "unknown_class",
                                  "hash_search",   "method_table",
                                  "static_slot",   "static_stride",
                                  "call_error",    "other_exception"};
    std::ostringstream os;
    os << names[e.kind];
    if (e.kind == ErrorRec::unknown_class || e.kind == ErrorRec::method_table) {
        os << "(type=" << e.type << ")";
    }
    if (e.kind == ErrorRec::resolution || e.kind == ErrorRec::call_error) {
        os << "(status=" << e.status << ",arity=" << e.arity << ")";
    }
    return os.str();
}

// Runs update; classifies a hash search failure as inconclusive.  Returns
// false when the case cannot continue.
inline bool do_update(World& w, Outcome& o, UpdateOutcome& up) {
    up = w.cfg.update();
    if (up.err.kind == ErrorRec::hash_search) {
        o.inconclusive = true;
        return false;
    }
    if (up.err.kind != ErrorRec::none) {
        o.fail("update-error: update reported " + err_name(up.err) +
               " on a closed registry");
        return false;
    }
    return true;
}

// ---------------------------------------------------------------------------
// C01: every legal tuple dispatches per the model.  `call_budget` bounds the
// number of erroring calls actually made through operator() (exceptions are
// slow); all tuples are checked through resolve().

struct DispatchStats {
    bool multi_applicable = false; // some tuple with >= 2 applicable defs
    bool three_applicable = false;
    bool has_none = false, has_ambig = false;
    bool nontransitive = false;
    std::uint64_t tuples = 0;
};

inline void check_dispatch(
    World& w, Outcome& o, DispatchStats& ds, bool call_bodies = true,
    int error_call_budget = 4) {
    const Spec& s = w.spec;
    for (std::size_t m = 0; m < w.meths.size() && o.ok; ++m) {
        auto& mi = w.meths[m];
        const MethSpec& ms = *mi.ms;
        Tuples tu(s, ms);
        int err_calls = 0;
        while (tu.next() && o.ok) {
            ++ds.tuples;
            const int* t = tu.t.data();
            Sel sel = dispatch(s, ms, t);
            int napp = count_applicable(s, ms, t);
            ds.multi_applicable |= napp >= 2;
            ds.three_applicable |= napp >= 3;
            ds.has_none |= sel.kind == K_NONE;
            ds.has_ambig |= sel.kind == K_AMBIG;
            auto args = w.make_args(ms, t, int(tu.j));
            void* expected = w.expected_pointer(m, sel);
            void* got = nullptr;
            ErrorRec rerr = guarded([&] {
                got = mi.desc->resolve(args.objs, args.ints, nullptr);
            });
            if (rerr.kind != ErrorRec::none) {
                o.fail("dispatch-error: resolve of " + w.describe_tuple(m, t) +
                       " raised " + err_name(rerr));
                break;
            }
            if (got != expected) {
                o.fail("dispatch: " + w.describe_tuple(m, t) + " resolves to " +
                       w.name_pointer(m, got) + ", model says " +
                       w.name_pointer(m, expected));
                break;
            }
            if (!call_bodies) {
                continue;
            }
            if (sel.kind != K_DEF) {
                if (err_calls++ >= error_call_budget) {
                    continue;
                }
            }
            g_log.clear();
            int ret = 0;
            ErrorRec cerr = guarded([&] {
                ret = mi.desc->call(args.objs, args.ints, nullptr);
            });
            if (sel.kind == K_DEF) {
                int fn = ms.defs[sel.def].fn;
                if (cerr.kind != ErrorRec::none) {
                    o.fail("call: " + w.describe_tuple(m, t) + " raised " +
                           err_name(cerr) + ", model says def#" +
                           std::to_string(sel.def));
                    break;
                }
                if (g_log.size() != 1 || g_log[0].def != fn ||
                    g_log[0].method != (const void*)mi.desc->info ||
                    ret != def_return(fn)) {
                    o.fail("call: " + w.describe_tuple(m, t) +
                           " ran the wrong body or returned the wrong value");
                    break;
                }
                const char* str = shape_table()[ms.shape].str;
                for (int p = 0; str[p]; ++p) {
                    std::uintptr_t want = str[p] == 'N'
                        ? std::uintptr_t(args.ints[p])
                        : reinterpret_cast<std::uintptr_t>(args.objs[p]);
                    if (g_log[0].a[p] != want) {
                        o.fail("call-args: " + w.describe_tuple(m, t) +
                               " body received a different argument at "
                               "position " +
                               std::to_string(p));
                    }
                }
            } else {
                bool is_res = cerr.kind == ErrorRec::resolution ||
                    cerr.kind == ErrorRec::call_error;
                int want = sel.kind == K_NONE ? resolution_error::no_definition
                                              : resolution_error::ambiguous;
                if (!is_res || cerr.status != want || !g_log.empty()) {
                    o.fail("call: " + w.describe_tuple(m, t) +
                           " should be reported as " +
                           (sel.kind == K_NONE ? "no_definition" : "ambiguous") +
                           " but got " + err_name(cerr) +
                           (g_log.empty() ? "" : " and a body ran"));
                    break;
                }
            }
        }
    }
}

// non-transitivity of more_specific among simultaneously applicable defs
inline bool has_nontransitive(const Spec& s) {
    for (auto& m : s.meths) {
        auto n = m.defs.size();
        for (std::size_t a = 0; a < n; ++a) {
            for (std::size_t b = 0; b < n; ++b) {
                if (a == b || !more_specific(s, m.defs[a], m.defs[b])) {
                    continue;
                }
                for (std::size_t c = 0; c < n; ++c) {
                    if (c != a && c != b &&
                        more_specific(s, m.defs[b], m.defs[c]) &&
                        !more_specific(s, m.defs[a], m.defs[c])) {
                        return true;
                    }
                }
            }
        }
    }
    return false;
}

// ---------------------------------------------------------------------------
// C03: next of every definition

struct NextStats {
    bool two_general = false; // some def with >= 2 strictly more general defs
};

inline void check_next(World& w, Outcome& o, NextStats& ns) {
    const Spec& s = w.spec;
    for (std::size_t m = 0; m < w.meths.size() && o.ok; ++m) {
        auto& mi = w.meths[m];
        const MethSpec& ms = *mi.ms;
        for (std::size_t d = 0; d < ms.defs.size(); ++d) {
            if (!mi.defs[d].method) {
                continue; // not registered (histories)
            }
            auto general = more_general(s, ms, int(d));
            ns.two_general |= general.size() >= 2;
            Sel sel = select(s, ms, general);
            void* expected = w.expected_pointer(m, sel);
            void* got = mi.next_store[d];
            if (got != expected) {
                o.fail("next: method#" + std::to_string(m) + " def#" +
                       std::to_string(d) + " next is " +
                       (got ? w.name_pointer(m, got) : std::string("null")) +
                       ", model says " + w.name_pointer(m, expected));
                break;
            }
        }
    }
}

// ---------------------------------------------------------------------------
// C04: slot injectivity and bounds-checked table walk

struct WalkStats {
    bool lattice = false; // some class with >= 2 direct bases under a used root
    bool shared = false;  // >= 2 (method, parameter) pairs share a class
    bool drift = false;   // layout knowledge disagreed with the real resolve
};

inline void check_slots_and_walk(
    World& w, Outcome& o, const UpdateOutcome& up, WalkStats& ws) {
    const Spec& s = w.spec;
    auto& dd = *w.cfg.dispatch_data;
    const std::uintptr_t* lo = dd.data();
    const std::uintptr_t* hi = dd.data() + dd.size();

    // (a) slot injectivity per class, from the installed slots_strides
    for (int c = 0; c < s.n && o.ok; ++c) {
        std::vector<std::pair<std::size_t, std::string>> used;
        for (std::size_t m = 0; m < w.meths.size(); ++m) {
            auto& mi = w.meths[m];
            for (std::size_t p = 0; p < mi.ms->vp.size(); ++p) {
                if (!s.isa(c, mi.ms->vp[p])) {
                    continue;
                }
                std::size_t slot = mi.desc->info->slots_strides_ptr[p];
                std::string who = "method#" + std::to_string(m) + " param " +
                    std::to_string(p);
                for (auto& u : used) {
                    if (u.first == slot) {
                        o.fail("slot-collision: class " + std::to_string(c) +
                               ": " + u.second + " and " + who +
                               " share v-table slot " + std::to_string(slot));
                    }
                }
                used.push_back({slot, who});
            }
        }
        ws.shared |= used.size() >= 2;
    }
    if (!o.ok) {
        return;
    }

    // (b) bounds-checked re-implementation of the documented walk
    auto in_dd = [&](const std::uintptr_t* p) { return p >= lo && p < hi; };
    for (std::size_t m = 0; m < w.meths.size() && o.ok; ++m) {
        auto& mi = w.meths[m];
        const MethSpec& ms = *mi.ms;
        const std::size_t* ss = mi.desc->info->slots_strides_ptr;
        std::size_t arity = ms.vp.size();
        // the method's own table, from the compiler result
        const std::uintptr_t* tbl_lo = nullptr;
        const std::uintptr_t* tbl_hi = nullptr;
        if (arity > 1 && up.comp) {
            for (auto& cm : up.comp->methods) {
                if (cm.info == mi.desc->info) {
                    tbl_lo = cm.gv_dispatch_table;
                    tbl_hi = tbl_lo + cm.dispatch_table.size();
                }
            }
        }
        Tuples tu(s, ms);
        while (tu.next() && o.ok) {
            const int* t = tu.t.data();
            std::uintptr_t cell = 0;
            bool ok = true;
            std::string why;
            const std::uintptr_t* dptr = nullptr;
            for (std::size_t i = 0; i < arity && ok; ++i) {
                const std::uintptr_t* vptr = w.vptr_store[t[i]];
                // the policy's own lookup must find this class's table
                if (!w.cfg.projection || true) {
                    const std::uintptr_t* found = nullptr;
                    ErrorRec e = guarded(
                        [&] { found = w.cfg.dynamic_vptr(w.objs[t[i]]); });
                    if (e.kind != ErrorRec::none || found != vptr) {
                        ok = false;
                        why = "dynamic lookup of class " +
                            std::to_string(t[i]) +
                            " does not find its v-table";
                        break;
                    }
                }
                const std::uintptr_t* p = vptr + ss[i];
                if (!in_dd(p)) {
                    ok = false;
                    why = "v-table cell of class " + std::to_string(t[i]) +
                        " at slot " + std::to_string(ss[i]) +
                        " lies outside dispatch_data";
                    break;
                }
                if (arity == 1) {
                    cell = *p;
                } else if (i == 0) {
                    dptr = reinterpret_cast<const std::uintptr_t*>(*p);
                    if (!in_dd(dptr) ||
                        (tbl_lo && (dptr < tbl_lo || dptr >= tbl_hi))) {
                        ok = false;
                        why = "first-dimension cell does not point into the "
                              "method's own dispatch table";
                    }
                } else {
                    std::size_t stride = ss[arity + i - 1];
                    dptr = dptr + *p * stride;
                    if (!in_dd(dptr) ||
                        (tbl_lo && (dptr < tbl_lo || dptr >= tbl_hi))) {
                        ok = false;
                        why = "walk leaves the method's own dispatch table at "
                              "dimension " +
                            std::to_string(i);
                    }
                }
            }
            if (!ok) {
                o.fail("walk-bounds: " + w.describe_tuple(m, t) + ": " + why);
                break;
            }
            if (arity > 1) {
                cell = *dptr;
            }
            Sel sel = dispatch(s, ms, t);
            void* expected = w.expected_pointer(m, sel);
            if (reinterpret_cast<void*>(cell) != expected) {
                // disagreement with the model: is the layout knowledge stale?
                auto args = w.make_args(ms, t);
                void* real = nullptr;
                guarded([&] {
                    real = mi.desc->resolve(args.objs, args.ints, nullptr);
                });
                if (real == expected) {
                    ws.drift = true; // harness knowledge stale, not a defect
                    return;
                }
                o.fail("walk: " + w.describe_tuple(m, t) + " reads " +
                       w.name_pointer(m, reinterpret_cast<void*>(cell)) +
                       ", model says " + w.name_pointer(m, expected));
            }
        }
    }
}

} // namespace e1

#endif
