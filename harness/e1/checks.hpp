// Observation and oracle comparison functions shared by the E1 properties.
#ifndef VERIF_E1_CHECKS_HPP
#define VERIF_E1_CHECKS_HPP

#include "synth.hpp"

#include <csignal>
#include <map>
#include <sstream>
#include <tuple>

namespace e1 {

using vf::Outcome;

inline std::string err_name(const ErrorRec& e) {
    static const char* names[] = {"none",          "generic",
                                  "resolution",    "unknown_class",
                                  "hash_search",   "method_table",
                                  "static_slot",   "static_stride",
                                  "call_error",    "other_exception"};
    std::ostringstream os;
    os << names[e.kind];
    if (e.kind == ErrorRec::unknown_class || e.kind == ErrorRec::method_table) {
        os << "(type=" << e.type << ")";
    }
    if (e.kind == ErrorRec::resolution || e.kind == ErrorRec::call_error) {
        os << "(status=" << e.status << ",arity=" << e.arity << ")";
    }
    return os.str();
}

// Runs update; classifies a hash search failure as inconclusive.  Returns
// false when the case cannot continue.
inline bool do_update(World& w, Outcome& o, UpdateOutcome& up) {
    up = w.cfg.update();
    if (up.err.kind == ErrorRec::hash_search) {
        // no search budget is injected here (only the hash engine does that)
        // and the registered ids are distinct by construction: the search
        // does not fail on such sets (0 failures in 10^7 cases on the
        // unchanged tree), so a failure means update handed it something
        // else than the set of registered ids
        o.fail("update-error: the hash search failed on the " +
               std::to_string(w.spec.n) +
               " classes' distinct ids (no search budget was injected)");
        return false;
    }
    if (up.err.kind != ErrorRec::none) {
        o.fail("update-error: update reported " + err_name(up.err) +
               " on a closed registry");
        return false;
    }
    auto msg = w.check_arrays();
    if (!msg.empty()) {
        o.fail(msg);
        return false;
    }
    return true;
}

// ---------------------------------------------------------------------------
// C01: every legal tuple dispatches per the model.  `call_budget` bounds the
// number of erroring calls actually made through operator() (exceptions are
// slow); all tuples are checked through resolve().

struct DispatchStats {
    bool multi_applicable = false; // some tuple with >= 2 applicable defs
    bool three_applicable = false;
    bool has_none = false, has_ambig = false;
    bool nontransitive = false;
    std::uint64_t tuples = 0;
};

inline void check_dispatch(
    World& w, Outcome& o, DispatchStats& ds, bool call_bodies = true,
    int error_call_budget = 4) {
    const Spec& s = w.spec;
    for (std::size_t m = 0; m < w.meths.size() && o.ok; ++m) {
        auto& mi = w.meths[m];
        const MethSpec& ms = *mi.ms;
        Tuples tu(s, ms);
        int err_calls = 0;
        while (tu.next() && o.ok) {
            ++ds.tuples;
            const int* t = tu.t.data();
            Sel sel = dispatch(s, ms, t);
            int napp = count_applicable(s, ms, t);
            ds.multi_applicable |= napp >= 2;
            ds.three_applicable |= napp >= 3;
            ds.has_none |= sel.kind == K_NONE;
            ds.has_ambig |= sel.kind == K_AMBIG;
            auto args = w.make_args(ms, t, int(tu.j));
            void* expected = w.expected_pointer(m, sel);
            void* got = nullptr;
            ErrorRec rerr = guarded([&] {
                got = mi.desc->resolve(args.objs, args.ints, nullptr);
            });
            if (rerr.kind != ErrorRec::none) {
                o.fail("dispatch-error: resolve of " + w.describe_tuple(m, t) +
                       " raised " + err_name(rerr));
                break;
            }
            if (got != expected) {
                o.fail("dispatch: " + w.describe_tuple(m, t) + " resolves to " +
                       w.name_pointer(m, got) + ", model says " +
                       w.name_pointer(m, expected));
                break;
            }
            if (!call_bodies) {
                continue;
            }
            if (sel.kind != K_DEF) {
                if (err_calls++ >= error_call_budget) {
                    continue;
                }
            }
            g_log.clear();
            int ret = 0;
            ErrorRec cerr = guarded([&] {
                ret = mi.desc->call(args.objs, args.ints, nullptr);
            });
            if (sel.kind == K_DEF) {
                int fn = ms.defs[sel.def].fn;
                if (cerr.kind != ErrorRec::none) {
                    o.fail("call: " + w.describe_tuple(m, t) + " raised " +
                           err_name(cerr) + ", model says def#" +
                           std::to_string(sel.def));
                    break;
                }
                if (g_log.size() != 1 || g_log[0].def != fn ||
                    g_log[0].method != (const void*)mi.desc->info ||
                    ret != def_return(fn)) {
                    o.fail("call: " + w.describe_tuple(m, t) +
                           " ran the wrong body or returned the wrong value");
                    break;
                }
                const char* str = shape_table()[ms.shape].str;
                for (int p = 0; str[p]; ++p) {
                    std::uintptr_t want = str[p] == 'N'
                        ? std::uintptr_t(args.ints[p])
                        : reinterpret_cast<std::uintptr_t>(args.objs[p]);
                    if (g_log[0].a[p] != want) {
                        o.fail("call-args: " + w.describe_tuple(m, t) +
                               " body received a different argument at "
                               "position " +
                               std::to_string(p));
                    }
                }
            } else {
                bool is_res = cerr.kind == ErrorRec::resolution ||
                    cerr.kind == ErrorRec::call_error;
                int want = sel.kind == K_NONE ? resolution_error::no_definition
                                              : resolution_error::ambiguous;
                if (!is_res || cerr.status != want || !g_log.empty()) {
                    o.fail("call: " + w.describe_tuple(m, t) +
                           " should be reported as " +
                           (sel.kind == K_NONE ? "no_definition" : "ambiguous") +
                           " but got " + err_name(cerr) +
                           (g_log.empty() ? "" : " and a body ran"));
                    break;
                }
            }
        }
    }
}

// non-transitivity of more_specific among simultaneously applicable defs
inline bool has_nontransitive(const Spec& s) {
    for (auto& m : s.meths) {
        auto n = m.defs.size();
        for (std::size_t a = 0; a < n; ++a) {
            for (std::size_t b = 0; b < n; ++b) {
                if (a == b || !more_specific(s, m.defs[a], m.defs[b])) {
                    continue;
                }
                for (std::size_t c = 0; c < n; ++c) {
                    if (c != a && c != b &&
                        more_specific(s, m.defs[b], m.defs[c]) &&
                        !more_specific(s, m.defs[a], m.defs[c])) {
                        return true;
                    }
                }
            }
        }
    }
    return false;
}

// ---------------------------------------------------------------------------
// C03: next of every definition

struct NextStats {
    bool two_general = false; // some def with >= 2 strictly more general defs
};

inline void check_next(World& w, Outcome& o, NextStats& ns) {
    const Spec& s = w.spec;
    for (std::size_t m = 0; m < w.meths.size() && o.ok; ++m) {
        auto& mi = w.meths[m];
        const MethSpec& ms = *mi.ms;
        for (std::size_t d = 0; d < ms.defs.size(); ++d) {
            if (!mi.defs[d]->method) {
                continue; // not registered (histories)
            }
            auto general = more_general(s, ms, int(d));
            ns.two_general |= general.size() >= 2;
            Sel sel = select(s, ms, general);
            void* expected = w.expected_pointer(m, sel);
            void* got = *mi.next[d];
            if (got != expected) {
                o.fail("next: method#" + std::to_string(m) + " def#" +
                       std::to_string(d) + " next is " +
                       (got ? w.name_pointer(m, got) : std::string("null")) +
                       ", model says " + w.name_pointer(m, expected));
                break;
            }
        }
    }
}

// ---------------------------------------------------------------------------
// C04: slot injectivity and bounds-checked table walk

struct WalkStats {
    bool lattice = false; // some class with >= 2 direct bases under a used root
    bool shared = false;  // >= 2 (method, parameter) pairs share a class
    bool drift = false;   // layout knowledge disagreed with the real resolve
};

inline void check_slots_and_walk(
    World& w, Outcome& o, const UpdateOutcome& up, WalkStats& ws) {
    const Spec& s = w.spec;
    auto& dd = *w.cfg.dispatch_data;
    const std::uintptr_t* lo = dd.data();
    const std::uintptr_t* hi = dd.data() + dd.size();

    // (a) slot injectivity per class, from the installed slots_strides
    for (int c = 0; c < s.n && o.ok; ++c) {
        std::vector<std::pair<std::size_t, std::string>> used;
        for (std::size_t m = 0; m < w.meths.size(); ++m) {
            auto& mi = w.meths[m];
            for (std::size_t p = 0; p < mi.ms->vp.size(); ++p) {
                if (!s.isa(c, mi.ms->vp[p])) {
                    continue;
                }
                std::size_t slot = mi.desc->info->slots_strides_ptr[p];
                std::string who = "method#" + std::to_string(m) + " param " +
                    std::to_string(p);
                for (auto& u : used) {
                    if (u.first == slot) {
                        o.fail("slot-collision: class " + std::to_string(c) +
                               ": " + u.second + " and " + who +
                               " share v-table slot " + std::to_string(slot));
                    }
                }
                used.push_back({slot, who});
            }
        }
        ws.shared |= used.size() >= 2;
    }
    if (!o.ok) {
        return;
    }

    // (b) bounds-checked re-implementation of the documented walk
    auto in_dd = [&](const std::uintptr_t* p) { return p >= lo && p < hi; };
    for (std::size_t m = 0; m < w.meths.size() && o.ok; ++m) {
        auto& mi = w.meths[m];
        const MethSpec& ms = *mi.ms;
        const std::size_t* ss = mi.desc->info->slots_strides_ptr;
        std::size_t arity = ms.vp.size();
        // the method's own table, from the compiler result
        const std::uintptr_t* tbl_lo = nullptr;
        const std::uintptr_t* tbl_hi = nullptr;
        if (arity > 1 && up.comp) {
            for (auto& cm : up.comp->methods) {
                if (cm.info == mi.desc->info) {
                    tbl_lo = cm.gv_dispatch_table;
                    tbl_hi = tbl_lo + cm.dispatch_table.size();
                }
            }
        }
        Tuples tu(s, ms);
        while (tu.next() && o.ok) {
            const int* t = tu.t.data();
            std::uintptr_t cell = 0;
            bool ok = true;
            std::string why;
            const std::uintptr_t* dptr = nullptr;
            for (std::size_t i = 0; i < arity && ok; ++i) {
                const std::uintptr_t* vptr = w.vptr_store[t[i]];
                // the policy's own lookup must find this class's table
                if (!w.cfg.projection || true) {
                    const std::uintptr_t* found = nullptr;
                    ErrorRec e = guarded(
                        [&] { found = w.cfg.dynamic_vptr(w.objs[t[i]]); });
                    if (e.kind != ErrorRec::none || found != vptr) {
                        ok = false;
                        why = "dynamic lookup of class " +
                            std::to_string(t[i]) +
                            " does not find its v-table";
                        break;
                    }
                }
                const std::uintptr_t* p = vptr + ss[i];
                if (!in_dd(p)) {
                    ok = false;
                    why = "v-table cell of class " + std::to_string(t[i]) +
                        " at slot " + std::to_string(ss[i]) +
                        " lies outside dispatch_data";
                    break;
                }
                if (arity == 1) {
                    cell = *p;
                } else if (i == 0) {
                    dptr = reinterpret_cast<const std::uintptr_t*>(*p);
                    if (!in_dd(dptr) ||
                        (tbl_lo && (dptr < tbl_lo || dptr >= tbl_hi))) {
                        ok = false;
                        why = "first-dimension cell does not point into the "
                              "method's own dispatch table";
                    }
                } else {
                    std::size_t stride = ss[arity + i - 1];
                    dptr = dptr + *p * stride;
                    if (!in_dd(dptr) ||
                        (tbl_lo && (dptr < tbl_lo || dptr >= tbl_hi))) {
                        ok = false;
                        why = "walk leaves the method's own dispatch table at "
                              "dimension " +
                            std::to_string(i);
                    }
                }
            }
            if (!ok) {
                o.fail("walk-bounds: " + w.describe_tuple(m, t) + ": " + why);
                break;
            }
            if (arity > 1) {
                cell = *dptr;
            }
            Sel sel = dispatch(s, ms, t);
            void* expected = w.expected_pointer(m, sel);
            if (reinterpret_cast<void*>(cell) != expected) {
                // disagreement with the model: is the layout knowledge stale?
                auto args = w.make_args(ms, t);
                void* real = nullptr;
                guarded([&] {
                    real = mi.desc->resolve(args.objs, args.ints, nullptr);
                });
                if (real == expected) {
                    ws.drift = true; // harness knowledge stale, not a defect
                    return;
                }
                o.fail("walk: " + w.describe_tuple(m, t) + " reads " +
                       w.name_pointer(m, reinterpret_cast<void*>(cell)) +
                       ", model says " + w.name_pointer(m, expected));
            }
        }
    }
}

// ---------------------------------------------------------------------------
// C17: the update report.  The model enumerates, per dimension, the distinct
// "applicable-set signatures" of the classes acceptable at that position
// (dispatch depends on the classes of a tuple only through them), which
// keeps the enumeration exact and small.

struct ReportModel {
    bool not_implemented = false, ambiguous = false;
    bool concrete_not_implemented = false, concrete_ambiguous = false;
    std::size_t cells = 0;
};

inline ReportModel model_report(const Spec& s) {
    ReportModel r;
    for (auto& m : s.meths) {
        std::size_t arity = m.vp.size();
        // signature (bitmask over definitions, up to 128) -> has a concrete
        // class
        using Mask = unsigned __int128;
        std::vector<std::vector<std::pair<Mask, bool>>> dims(arity);
        for (std::size_t i = 0; i < arity; ++i) {
            for (int c : bits(s.desc[m.vp[i]])) {
                Mask sig = 0;
                for (std::size_t d = 0; d < m.defs.size(); ++d) {
                    if (s.isa(c, m.defs[d].cls[i])) {
                        sig |= Mask(1) << d;
                    }
                }
                bool found = false;
                for (auto& g : dims[i]) {
                    if (g.first == sig) {
                        g.second = g.second || !s.abstract_[c];
                        found = true;
                    }
                }
                if (!found) {
                    dims[i].push_back({sig, !s.abstract_[c]});
                }
            }
        }
        std::size_t cells = 1;
        for (auto& d : dims) {
            cells *= d.size();
        }
        if (arity > 1) {
            r.cells += cells;
        }
        std::vector<std::size_t> idx(arity, 0);
        for (std::size_t k = 0; k < cells; ++k) {
            Mask mask = ~Mask(0);
            bool concrete = true;
            std::size_t rem = k;
            for (std::size_t i = 0; i < arity; ++i) {
                auto& g = dims[i][rem % dims[i].size()];
                rem /= dims[i].size();
                mask &= g.first;
                concrete = concrete && g.second;
            }
            std::vector<int> S;
            for (std::size_t d = 0; d < m.defs.size(); ++d) {
                if (mask >> d & 1) {
                    S.push_back(int(d));
                }
            }
            Sel sel = select(s, m, S);
            if (sel.kind == K_NONE) {
                r.not_implemented = true;
                r.concrete_not_implemented |= concrete;
            } else if (sel.kind == K_AMBIG) {
                r.ambiguous = true;
                r.concrete_ambiguous |= concrete;
            }
        }
    }
    return r;
}

inline void check_report(
    World& w, Outcome& o, const UpdateOutcome& up, const ReportModel& rm) {
    auto& rep = up.report;
    auto flag = [&](const char* name, std::size_t got, bool want) {
        if ((got != 0) != want) {
            o.fail(std::string("report-") + name + ": report." + name + " = " +
                   std::to_string(got) + ", model says " +
                   (want ? "non-zero" : "zero"));
        }
    };
    flag("not_implemented", rep.not_implemented, rm.not_implemented);
    flag("ambiguous", rep.ambiguous, rm.ambiguous);
    flag("concrete_not_implemented", rep.concrete_not_implemented,
         rm.concrete_not_implemented);
    flag("concrete_ambiguous", rep.concrete_ambiguous, rm.concrete_ambiguous);
    if (rep.cells != rm.cells) {
        o.fail("report-cells: report.cells = " + std::to_string(rep.cells) +
               ", model says " + std::to_string(rm.cells));
    }
    if (up.comp) {
        std::size_t built = 0;
        for (auto& cm : up.comp->methods) {
            if (cm.arity() > 1) {
                built += cm.dispatch_table.size();
            }
        }
        if (rep.cells != built) {
            o.fail("report-cells-built: report.cells = " +
                   std::to_string(rep.cells) + " but " +
                   std::to_string(built) +
                   " multi-method dispatch cells were built");
        }
    }
}

// ---------------------------------------------------------------------------
// Observation of a world through the real resolve, independent of the
// registration order: methods are named by (shape, key), definitions by
// their pool function.

struct Obs {
    // (shape, key) -> per tuple (enumeration order): fn >= 0, -1 NONE,
    // -2 AMBIGUOUS, -3 anything else, -4 error raised
    std::map<std::pair<int, int>, std::vector<int>> disp;
    // (shape, key, fn) -> same coding
    std::map<std::tuple<int, int, int>, int> next;
};

inline int classify_pointer(MethInst& mi, void* p) {
    if (p == mi.desc->info->not_implemented) {
        return -1;
    }
    if (p == mi.desc->info->ambiguous) {
        return -2;
    }
    for (auto& d : mi.ms->defs) {
        if (p == mi.desc->defs[d.fn]) {
            return d.fn;
        }
    }
    return -3;
}

inline Obs observe(World& w) {
    Obs obs;
    for (std::size_t m = 0; m < w.meths.size(); ++m) {
        auto& mi = w.meths[m];
        auto key = std::make_pair(mi.ms->shape, mi.ms->key);
        auto& v = obs.disp[key];
        Tuples tu(w.spec, *mi.ms);
        while (tu.next()) {
            auto args = w.make_args(*mi.ms, tu.t.data());
            void* got = nullptr;
            ErrorRec e = guarded([&] {
                got = mi.desc->resolve(args.objs, args.ints, nullptr);
            });
            v.push_back(
                e.kind != ErrorRec::none ? -4 : classify_pointer(mi, got));
        }
        for (std::size_t d = 0; d < mi.ms->defs.size(); ++d) {
            obs.next[{mi.ms->shape, mi.ms->key, mi.ms->defs[d].fn}] =
                classify_pointer(mi, *mi.next[d]);
        }
    }
    return obs;
}

inline std::string code_name(int c) {
    switch (c) {
    case -1:
        return "not_implemented";
    case -2:
        return "ambiguous";
    case -3:
        return "foreign pointer";
    case -4:
        return "error";
    default:
        return "pool fn " + std::to_string(c);
    }
}

// first difference between two observations, "" when equal
inline std::string diff_obs(const Obs& a, const Obs& b) {
    for (auto& [key, va] : a.disp) {
        auto it = b.disp.find(key);
        if (it == b.disp.end() || it->second.size() != va.size()) {
            return "method set differs";
        }
        for (std::size_t i = 0; i < va.size(); ++i) {
            if (va[i] != it->second[i]) {
                return std::string("method ") +
                    shape_table()[key.first].str + "/" +
                    std::to_string(key.second) + " tuple #" +
                    std::to_string(i) + ": " + code_name(va[i]) + " vs " +
                    code_name(it->second[i]);
            }
        }
    }
    for (auto& [key, na] : a.next) {
        auto it = b.next.find(key);
        if (it == b.next.end()) {
            return "definition set differs";
        }
        if (it->second != na) {
            return std::string("next of method ") +
                shape_table()[std::get<0>(key)].str + "/" +
                std::to_string(std::get<1>(key)) + " pool fn " +
                std::to_string(std::get<2>(key)) + ": " + code_name(na) +
                " vs " + code_name(it->second);
        }
    }
    return "";
}

// ---------------------------------------------------------------------------
// C02: every NONE / AMBIGUOUS tuple is reported accurately

struct ErrorStats {
    bool nonvirtual_or_multi = false; // erroring method has an N parameter or
                                      // arity >= 2
    int error_calls = 0;
    int forked = 0;
};

// child side of the "handler returns => abort" check
inline void sigabrt_probe(int) {
    _exit(g_log.empty() ? 42 : 43);
}

inline void check_errors(
    World& w, Outcome& o, ErrorStats& es, int budget_per_method,
    int fork_budget) {
    const Spec& s = w.spec;
    Config& cfg = w.cfg;
    for (std::size_t m = 0; m < w.meths.size() && o.ok; ++m) {
        auto& mi = w.meths[m];
        const MethSpec& ms = *mi.ms;
        const char* str = shape_table()[ms.shape].str;
        std::size_t arity = ms.vp.size();
        // a tuple that dispatches normally, for the "later calls still
        // dispatch correctly" clause
        std::vector<int> good;
        Sel good_sel{K_NONE, -1};
        {
            Tuples tu(s, ms);
            while (tu.next()) {
                Sel sel = dispatch(s, ms, tu.t.data());
                if (sel.kind == K_DEF) {
                    good = tu.t;
                    good_sel = sel;
                    break;
                }
            }
        }
        Tuples tu(s, ms);
        int done = 0;
        while (tu.next() && o.ok && done < budget_per_method) {
            const int* t = tu.t.data();
            Sel sel = dispatch(s, ms, t);
            if (sel.kind == K_DEF) {
                continue;
            }
            ++done;
            ++es.error_calls;
            es.nonvirtual_or_multi |= arity >= 2 || strchr(str, 'N') != nullptr;
            auto args = w.make_args(ms, t, done);
            int want = sel.kind == K_NONE ? resolution_error::no_definition
                                          : resolution_error::ambiguous;
            g_log.clear();
            int before = g_error_deliveries;
            ErrorRec e = guarded(
                [&] { mi.desc->call(args.objs, args.ints, nullptr); });
            std::string where = w.describe_tuple(m, t);
            if (!g_log.empty()) {
                o.fail("error-body-ran: " + where +
                       " is unresolvable but a definition body ran");
                break;
            }
            bool right_kind = cfg.call_error_route
                ? e.kind == ErrorRec::call_error
                : e.kind == ErrorRec::resolution;
            if (!right_kind) {
                o.fail("error-kind: " + where +
                       " should raise a resolution error, got " + err_name(e));
                break;
            }
            if (!cfg.throw_facet && g_error_deliveries - before != 1) {
                o.fail("error-deliveries: " + where + ": handler entered " +
                       std::to_string(g_error_deliveries - before) + " times");
                break;
            }
            if (e.status != want) {
                o.fail("error-status: " + where + " reported status " +
                       std::to_string(e.status) + ", expected " +
                       std::to_string(want));
                break;
            }
            if (e.arity != arity) {
                o.fail("error-arity: " + where + " reported arity " +
                       std::to_string(e.arity) + ", the method has " +
                       std::to_string(arity) + " virtual parameters");
                break;
            }
            for (std::size_t i = 0; i < arity; ++i) {
                if (e.types[i] != w.objs[t[i]].id) {
                    o.fail("error-types: " + where + ": types[" +
                           std::to_string(i) + "] = " +
                           std::to_string(e.types[i]) +
                           " is not the dynamic type id of virtual argument " +
                           std::to_string(i) + " (" +
                           std::to_string(w.objs[t[i]].id) + ")");
                    break;
                }
            }
            if (!o.ok) {
                break;
            }
            // later calls still dispatch correctly
            if (!good.empty()) {
                auto gargs = w.make_args(ms, good.data(), 77);
                g_log.clear();
                int ret = 0;
                ErrorRec ge = guarded([&] {
                    ret = mi.desc->call(gargs.objs, gargs.ints, nullptr);
                });
                int fn = ms.defs[good_sel.def].fn;
                if (ge.kind != ErrorRec::none || g_log.size() != 1 ||
                    g_log[0].def != fn || ret != def_return(fn)) {
                    o.fail("error-aftermath: after the error on " + where +
                           " a resolvable call no longer dispatches correctly");
                    break;
                }
            }
            // handler returns => abort, in a forked child
            if (es.forked < fork_budget && !cfg.throw_facet) {
                ++es.forked;
                fflush(nullptr);
                pid_t pid = fork();
                if (pid == 0) {
                    int devnull = open("/dev/null", O_WRONLY);
                    if (devnull >= 0) {
                        dup2(devnull, 2);
                    }
                    signal(SIGABRT, sigabrt_probe);
                    cfg.set_handler_mode(1);
                    g_log.clear();
                    try {
                        mi.desc->call(args.objs, args.ints, nullptr);
                    } catch (...) {
                        _exit(44);
                    }
                    _exit(g_log.empty() ? 45 : 46);
                }
                int status = 0;
                waitpid(pid, &status, 0);
                int code = WIFEXITED(status) ? WEXITSTATUS(status) : -1;
                if (code != 42) {
                    std::string what = code == 43 || code == 46
                        ? "a definition body ran"
                        : code == 45 ? "the call returned to the caller"
                        : code == 44 ? "an exception escaped"
                                     : "the child ended with status " +
                                std::to_string(status);
                    o.fail("error-no-abort: " + where +
                           ": the handler returned and instead of aborting " +
                           what);
                    break;
                }
            }
        }
    }
}

} // namespace e1

#endif
