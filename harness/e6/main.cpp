// Engine E6 (C19): forward declarations written by the generator.
//  variant "names": sets of qualified class names
//  variant "types": type descriptions built from a grammar
#include <yorel/yomm2/generator.hpp>

#include "../common/worker.hpp"

using namespace yorel::yomm2;
using vf::Choice;
using vf::json;
using vf::Outcome;

// Parses the output of write_forward_declarations: only `namespace X {`,
// `class X;` and `}` lines may appear.  Returns the fully qualified names
// declared (with multiplicity), or an error.
static std::string parse_declarations(
    const std::string& text, std::vector<std::string>& declared) {
    std::vector<std::string> scope;
    std::istringstream is(text);
    std::string line;
    while (std::getline(is, line)) {
        if (line.empty()) {
            continue;
        }
        auto ident_ok = [](const std::string& s) {
            if (s.empty() || !(std::isalpha((unsigned char)s[0]) || s[0] == '_')) {
                return false;
            }
            for (char c : s) {
                if (!(std::isalnum((unsigned char)c) || c == '_')) {
                    return false;
                }
            }
            return true;
        };
        if (line == "}") {
            if (scope.empty()) {
                return "fwd: unbalanced closing brace";
            }
            scope.pop_back();
        } else if (line.rfind("namespace ", 0) == 0 && line.size() > 12 &&
                   line.substr(line.size() - 2) == " {") {
            std::string id = line.substr(10, line.size() - 12);
            if (!ident_ok(id)) {
                return "fwd: malformed namespace line '" + line + "'";
            }
            scope.push_back(id);
        } else if (line.rfind("class ", 0) == 0 && line.back() == ';') {
            std::string id = line.substr(6, line.size() - 7);
            if (!ident_ok(id)) {
                return "fwd: malformed class line '" + line + "'";
            }
            std::string q;
            for (auto& s : scope) {
                q += s + "::";
            }
            declared.push_back(q + id);
        } else {
            return "fwd: unexpected line '" + line + "'";
        }
    }
    if (!scope.empty()) {
        return "fwd: " + std::to_string(scope.size()) +
            " namespace(s) left open";
    }
    return "";
}

static const std::set<std::string>& cxx_keywords() {
    static const std::set<std::string> k = {
        "void",     "bool",     "char",     "int",      "float",  "double",
        "short",    "long",     "signed",   "unsigned", "class",  "struct",
        "enum",     "const",    "volatile", "wchar_t",  "char8_t", "char16_t",
        "char32_t", "union",    "namespace", "template", "typename",
        "auto",     "static",   "extern",   "inline",   "operator"};
    return k;
}

static Outcome compare(
    const std::vector<std::string>& declared, std::set<std::string> expected,
    const std::string& what) {
    Outcome o;
    std::set<std::string> seen;
    for (auto& d : declared) {
        if (!seen.insert(d).second) {
            o.fail("fwd-duplicate: " + d + " is declared twice (" + what + ")");
            return o;
        }
    }
    for (auto& d : seen) {
        if (!expected.count(d)) {
            auto last = d.rfind("::");
            std::string id = last == std::string::npos ? d : d.substr(last + 2);
            if (cxx_keywords().count(id)) {
                o.fail("fwd-keyword: '" + d +
                       "' is declared as a class (" + what + ")");
            } else {
                o.fail("fwd-extra: " + d + " is declared but was not "
                       "requested (" + what + ")");
            }
            return o;
        }
    }
    for (auto& e : expected) {
        if (!seen.count(e)) {
            o.fail("fwd-missing: " + e + " was requested but is not declared "
                   "(in exactly its namespace) (" + what + ")");
            return o;
        }
    }
    return o;
}

// ---------------------------------------------------------------------------
// (a) sets of qualified names

static Outcome run_names(const json& j) {
    std::vector<std::string> names = j.at("names");
    generator g;
    std::set<std::string> expected;
    for (auto& n : names) {
        g.add_forward_declaration(std::string_view(n));
        expected.insert(n);
    }
    std::ostringstream os;
    g.write_forward_declarations(os);
    std::vector<std::string> declared;
    auto err = parse_declarations(os.str(), declared);
    Outcome o;
    if (!err.empty()) {
        o.fail(err);
    } else {
        o = compare(declared, expected, "names");
    }
    vf::Fnv h;
    for (auto& n : expected) {
        h.add(n);
    }
    o.hash = h.h;
    // non-trivial: >= 2 names, one being in a namespace, and two names share
    // a first component or one identifier is a string prefix of another
    bool nested = false, related = false;
    std::vector<std::string> v(expected.begin(), expected.end());
    for (std::size_t i = 0; i < v.size(); ++i) {
        nested |= v[i].find("::") != std::string::npos;
        for (std::size_t k = i + 1; k < v.size(); ++k) {
            auto a = v[i].substr(0, v[i].find("::"));
            auto b = v[k].substr(0, v[k].find("::"));
            related |= a == b || a.rfind(b, 0) == 0 || b.rfind(a, 0) == 0;
        }
    }
    o.nontrivial = v.size() >= 2 && nested && related;
    if (related) {
        o.classes.push_back("shared_or_prefix_first_component");
    }
    if (nested) {
        o.classes.push_back("nested_namespace");
    }
    return o;
}

static bool scope_conflict(const std::string& a, const std::string& b) {
    // one is a scope prefix of the other: a nested class cannot be forward
    // declared
    return a.size() < b.size() ? b.rfind(a + "::", 0) == 0
                               : a.rfind(b + "::", 0) == 0;
}

static json gen_names(Choice& ch, int size) {
    // short identifiers, identifiers that are string prefixes of one another
    // and of the namespaces the generator skips ("std::", "yorel::")
    static const char* alphabet[] = {"a",  "b",  "ab", "abc", "B",    "a1",
                                     "s",  "st", "y",  "yo",  "stdx", "a10"};
    constexpr int NA = 12;
    int n = ch.draw(std::min(9, 2 + size / 6));
    std::vector<std::string> names;
    for (int i = 0; i < n; ++i) {
        std::string name;
        if (!names.empty() && ch.chance(1, 2)) {
            // share a prefix with an existing name
            auto& base = names[ch.draw(names.size())];
            auto cut = base.rfind("::");
            if (cut != std::string::npos && ch.chance(2, 3)) {
                auto p = base.substr(0, cut);
                // possibly only part of the path
                while (ch.chance(1, 3) && p.find("::") != std::string::npos) {
                    p = p.substr(0, p.rfind("::"));
                }
                name = p + "::";
            }
        }
        int depth = ch.draw(4);
        for (int d = 0; d < depth; ++d) {
            name += std::string(alphabet[ch.draw(NA)]) + "::";
        }
        name += alphabet[ch.draw(NA)];
        bool bad = false;
        for (auto& other : names) {
            bad |= other == name || scope_conflict(other, name);
        }
        if (!bad) {
            names.push_back(name);
        }
    }
    return {{"names", names}};
}

// ---------------------------------------------------------------------------
// (b) type descriptions from a grammar; the generator knows which identifiers
// are user classes

struct TypeGen {
    Choice& ch;
    std::set<std::string> classes;
    int budget;

    std::string user_class() {
        static const char* ns[] = {"", "", "app::", "app::model::", "ab::",
                                   "a::"};
        static const char* id[] = {"Animal", "Dog",      "Cat", "a",  "ab",
                                   "Node",   "stdx",     "yorelish", "s",
                                   "st",     "yo"};
        std::string n = std::string(ns[ch.draw(6)]) + id[ch.draw(11)];
        for (auto& c : classes) {
            if (c != n && scope_conflict(c, n)) {
                return c;
            }
        }
        classes.insert(n);
        return n;
    }

    std::string fundamental() {
        static const char* f[] = {
            "void",          "bool",           "char",
            "signed char",   "unsigned char",  "wchar_t",
            "char16_t",      "char32_t",       "short",
            "unsigned short", "int",           "unsigned int",
            "long",          "unsigned long",  "long long",
            "unsigned long long", "float",     "double",
            "long double",   "char8_t",
            // std::nullptr_t as the demangler prints it, and the extended
            // integers
            "decltype(nullptr)", "__int128", "unsigned __int128"};
        return f[ch.draw(23)];
    }

    // a non-type template argument, as a demangler prints it
    std::string literal() {
        static const char* l[] = {"3ul", "42",  "7ull", "10l",  "2u",
                                  "-1",  "true", "false", "(char)65",
                                  "0",   "1000000000000ll", "(unsigned char)3"};
        return l[ch.draw(12)];
    }

    std::string type(int depth) {
        --budget;
        int k = depth > 3 || budget < 0 ? ch.draw(3) : ch.draw(12);
        switch (k) {
        case 0:
        case 1:
            return user_class();
        case 2:
            return fundamental();
        case 3:
            return type(depth + 1) + " const";
        case 4:
            return type(depth + 1) + " volatile";
        case 5:
            return type(depth + 1) + "*";
        case 6:
            return type(depth + 1) + "&";
        case 7:
            return type(depth + 1) + " [" + std::to_string(1 + ch.draw(9)) +
                "]";
        case 8: { // function type
            std::string s = type(depth + 1) + " (";
            int n = ch.draw(3);
            for (int i = 0; i < n; ++i) {
                s += (i ? ", " : "") + type(depth + 1);
            }
            s += ")";
            if (ch.chance(1, 4)) {
                s += " noexcept"; // part of the function type since C++17
            }
            return s;
        }
        case 9: { // std / yorel template or entity
            static const char* t[] = {
                "std::shared_ptr",     "std::vector", "std::unique_ptr",
                "yorel::yomm2::virtual_", "yorel::yomm2::virtual_ptr",
                "std::basic_ostream"};
            if (ch.chance(1, 5)) {
                static const char* e[] = {"std::string", "std::ostream",
                                          "yorel::yomm2::policy::debug"};
                return e[ch.draw(3)];
            }
            std::string s = std::string(t[ch.draw(6)]) + "<" + type(depth + 1);
            if (ch.chance(1, 4)) {
                s += ", " + type(depth + 1);
            }
            if (ch.chance(1, 4)) {
                s += ", " + literal(); // std::array<T, 3ul>
            }
            return s + (s.back() == '>' ? " >" : ">");
        }
        case 10: { // user template: the template name is skipped
            static const char* t[] = {"Box", "app::Holder", "ab::Pair"};
            std::string s = std::string(t[ch.draw(3)]) +
                (ch.chance(1, 3) ? " <" : "<") + type(depth + 1);
            if (ch.chance(1, 4)) {
                s += ", " + literal();
            }
            return s + (s.back() == '>' ? " >" : ">");
        }
        default:
            return type(depth + 1) + "&&";
        }
    }
};

static json gen_types(Choice& ch, int size) {
    TypeGen g{ch, {}, 4 + size / 4};
    int n = 1 + ch.draw(3);
    std::vector<std::string> descs;
    for (int i = 0; i < n; ++i) {
        descs.push_back(g.type(0));
    }
    return {{"types", descs},
            {"classes",
             std::vector<std::string>(g.classes.begin(), g.classes.end())}};
}

static Outcome run_types(const json& j) {
    std::vector<std::string> descs = j.at("types");
    std::vector<std::string> classes = j.at("classes");
    generator g;
    for (auto& d : descs) {
        g.add_forward_declaration(std::string_view(d));
    }
    std::ostringstream os;
    g.write_forward_declarations(os);
    std::vector<std::string> declared;
    auto err = parse_declarations(os.str(), declared);
    // ground truth: the user classes that still occur in the descriptions
    // (shrinking may have removed text)
    std::set<std::string> expected;
    for (auto& c : classes) {
        for (auto& d : descs) {
            std::size_t pos = 0;
            while ((pos = d.find(c, pos)) != std::string::npos) {
                bool left = pos == 0 ||
                    !(std::isalnum((unsigned char)d[pos - 1]) ||
                      d[pos - 1] == '_' || d[pos - 1] == ':');
                std::size_t end = pos + c.size();
                bool right = end == d.size() ||
                    !(std::isalnum((unsigned char)d[end]) || d[end] == '_' ||
                      d[end] == ':');
                if (left && right) {
                    expected.insert(c);
                }
                pos = end;
            }
        }
    }
    Outcome o;
    if (!err.empty()) {
        o.fail(err);
    } else {
        o = compare(declared, expected, "types");
    }
    vf::Fnv h;
    bool cv = false, fundamental_multi = false, tmpl = false, lit = false;
    for (auto& d : descs) {
        h.add(d);
        cv |= d.find("const") != std::string::npos ||
            d.find("volatile") != std::string::npos;
        fundamental_multi |= d.find("unsigned ") != std::string::npos ||
            d.find("long ") != std::string::npos;
        tmpl |= d.find('<') != std::string::npos;
        lit |= d.find("noexcept") != std::string::npos ||
            d.find("nullptr") != std::string::npos ||
            d.find("ul") != std::string::npos ||
            d.find("true") != std::string::npos ||
            d.find("false") != std::string::npos ||
            d.find("__int128") != std::string::npos;
    }
    o.hash = h.h;
    o.nontrivial = !expected.empty() && (cv || tmpl || fundamental_multi);
    if (cv) {
        o.classes.push_back("cv_qualified");
    }
    if (tmpl) {
        o.classes.push_back("template");
    }
    if (fundamental_multi) {
        o.classes.push_back("multi_word_fundamental");
    }
    if (lit) {
        o.classes.push_back("literal_or_keyword_token");
    }
    return o;
}

static std::optional<vf::Property>
lookup(const std::string& id, const std::string& variant) {
    if (id != "C19") {
        return std::nullopt;
    }
    vf::Property p;
    p.id = id;
    p.variant = variant;
    if (variant == "types") {
        p.generate = gen_types;
        p.run = run_types;
        p.shrinks = [](const json& j) {
            std::vector<json> out;
            auto& ts = j.at("types");
            for (std::size_t i = 0; i < ts.size() && ts.size() > 1; ++i) {
                json r = j;
                r["types"].erase(i);
                out.push_back(r);
            }
            return out;
        };
    } else {
        p.generate = gen_names;
        p.run = run_names;
        p.shrinks = [](const json& j) {
            std::vector<json> out;
            auto& ns = j.at("names");
            for (std::size_t i = 0; i < ns.size(); ++i) {
                json r = j;
                r["names"].erase(i);
                out.push_back(r);
            }
            return out;
        };
    }
    return p;
}

#ifdef VERIF_FUZZ
extern "C" int LLVMFuzzerTestOneInput(const std::uint8_t* data,
                                      std::size_t size) {
    static std::vector<vf::Property> table = {*lookup("C19", "names"), *lookup("C19", "types")};
    static bool once = [] {
        std::atexit([] {
            fflush(nullptr);
            _exit(0);
        });
        return true;
    }();
    (void)once;
    return vf::fuzz_one(data, size, table, "e6");
}
#else
int main(int argc, char** argv) {
    int rc = vf::worker_main(argc, argv, &lookup);
    fflush(nullptr);
    _exit(rc);
}
#endif
