// Generic worker: drives a property with rapidcheck, records statistics,
// replays and structurally shrinks JSON cases.  Included by every engine's
// main translation unit.
#ifndef VERIF_WORKER_HPP
#define VERIF_WORKER_HPP

#include <rapidcheck.h>
#include <nlohmann/json.hpp>

#include <fcntl.h>
#include <sys/wait.h>
#include <unistd.h>

#include <cstdint>
#include <cstdio>
#include <cstdlib>
#include <fstream>
#include <functional>
#include <map>
#include <optional>
#include <set>
#include <sstream>
#include <string>
#include <unordered_set>
#include <vector>

extern "C" int __lsan_do_recoverable_leak_check() __attribute__((weak));
extern "C" void __sanitizer_print_memory_profile(unsigned long, unsigned long)
    __attribute__((weak));

namespace vf {

using json = nlohmann::json;

// ---------------------------------------------------------------------------
// Choice source.  Every random decision of every generator is draw(n).

struct Choice {
    virtual ~Choice() {
    }
    // uniform in [0, n); n <= 1 gives 0.  0 is always the simplest choice.
    virtual std::uint32_t draw(std::uint32_t n) = 0;
    bool chance(std::uint32_t num, std::uint32_t den) {
        return draw(den) < num;
    }
    std::uint64_t draw64() {
        std::uint64_t hi = draw(0x10000u), mh = draw(0x10000u),
                      ml = draw(0x10000u), lo = draw(0x10000u);
        return (hi << 48) | (mh << 32) | (ml << 16) | lo;
    }
};

// rapidcheck-backed: imperative picks inside the property body, recorded and
// shrunk (toward 0) by rapidcheck.  inRange is size-scaled in this build,
// hence the explicit resize to the nominal size.
struct RcChoice : Choice {
    std::uint32_t draw(std::uint32_t n) override {
        if (n <= 1) {
            return 0;
        }
        return *rc::gen::resize(
            100, rc::gen::inRange<std::uint32_t>(0u, n));
    }
};

// byte-backed, for libFuzzer targets and pick-list replays
struct BytesChoice : Choice {
    const std::uint8_t* p;
    const std::uint8_t* e;
    BytesChoice(const std::uint8_t* data, std::size_t size)
        : p(data), e(data + size) {
    }
    std::uint32_t draw(std::uint32_t n) override {
        if (n <= 1) {
            return 0;
        }
        std::uint32_t v = 0;
        int bytes = n <= 0x100 ? 1 : n <= 0x10000 ? 2 : 4;
        for (int i = 0; i < bytes; ++i) {
            v = (v << 8) | (p < e ? *p++ : 0);
        }
        return v % n;
    }
};

// ---------------------------------------------------------------------------
// Outcome of running one case.

struct Outcome {
    bool ok = true;
    std::string message;        // when !ok
    bool nontrivial = false;    // by the property's stated rule
    bool inconclusive = false;  // e.g. legitimate hash_search_error
    std::uint64_t hash = 0;     // canonical hash of the case
    std::vector<const char*> classes; // distribution labels
    std::string excluded;       // id of a known finding whose trigger the
                                // case matches (verdict not used)
    void fail(const std::string& m) {
        if (ok) {
            ok = false;
            message = m;
        }
    }
};

struct Fnv {
    std::uint64_t h = 1469598103934665603ull;
    void add(std::uint64_t v) {
        for (int i = 0; i < 8; ++i) {
            h ^= (v >> (8 * i)) & 0xff;
            h *= 1099511628211ull;
        }
    }
    void add(const std::string& s) {
        for (unsigned char c : s) {
            h ^= c;
            h *= 1099511628211ull;
        }
        add(std::uint64_t(s.size()));
    }
};

// ---------------------------------------------------------------------------
// A property: case type erased behind JSON for replay / shrink.

struct Property {
    std::string id;      // e.g. "C01"
    std::string variant; // free text, e.g. configuration
    // generate a case (as JSON-able value held in `state`) and run it
    std::function<json(Choice&, int size)> generate; // case as json
    std::function<Outcome(const json&)> run;
    // structural shrink candidates of a case (each strictly simpler)
    std::function<std::vector<json>(const json&)> shrinks;
    // fast path: generate+run without going through JSON (optional);
    // must be equivalent to run(generate()).  Returns the outcome and, lazily,
    // the json of the case.
    std::function<Outcome(Choice&, int size, std::function<json()>&)> fast;
};

struct Stats {
    std::uint64_t evaluations = 0, nontrivial = 0, inconclusive = 0;
    std::unordered_set<std::uint64_t> hashes;
    std::map<std::string, std::uint64_t> classes, excluded;
    std::vector<json> samples;
    std::vector<json> failures;
};

inline std::string getarg(
    int argc, char** argv, const char* name, const char* dflt = "") {
    for (int i = 1; i + 1 < argc; ++i) {
        if (std::string(argv[i]) == name) {
            return argv[i + 1];
        }
    }
    return dflt;
}

inline bool hasflag(int argc, char** argv, const char* name) {
    for (int i = 1; i < argc; ++i) {
        if (std::string(argv[i]) == name) {
            return true;
        }
    }
    return false;
}

inline json load_json(const std::string& path) {
    std::ifstream is(path);
    json j;
    is >> j;
    return j;
}

inline void save_json(const std::string& path, const json& j) {
    std::ofstream os(path);
    os << j.dump(1) << "\n";
}

// Runs the case in a forked child; returns (failed, message).  A crash
// (signal / sanitizer abort) counts as failure.
inline std::pair<bool, std::string>
run_forked(const Property& prop, const json& c) {
    int fds[2];
    if (pipe(fds) != 0) {
        return {false, "pipe failed"};
    }
    fflush(nullptr);
    pid_t pid = fork();
    if (pid == 0) {
        close(fds[0]);
        // keep sanitizer chatter of shrink candidates out of the log
        if (!getenv("VERIF_SHRINK_VERBOSE")) {
            int devnull = open("/dev/null", 1);
            if (devnull >= 0) {
                dup2(devnull, 2);
            }
        }
        Outcome o = prop.run(c);
        std::string msg = o.ok || !o.excluded.empty() ? "" : o.message;
        if (!o.ok && o.excluded.empty()) {
            (void)!write(fds[1], msg.data(), msg.size());
        }
        _exit(o.ok || !o.excluded.empty() ? 0 : 3);
    }
    close(fds[1]);
    std::string msg;
    char buf[4096];
    ssize_t n;
    while ((n = read(fds[0], buf, sizeof buf)) > 0) {
        msg.append(buf, n);
    }
    close(fds[0]);
    int status = 0;
    waitpid(pid, &status, 0);
    if (WIFEXITED(status) && WEXITSTATUS(status) == 0) {
        return {false, ""};
    }
    if (WIFEXITED(status) && WEXITSTATUS(status) == 3) {
        return {true, msg};
    }
    std::ostringstream os;
    os << "crash: ";
    if (WIFSIGNALED(status)) {
        os << "signal " << WTERMSIG(status);
    } else {
        os << "exit status " << WEXITSTATUS(status)
           << " (sanitizer report or abort)";
    }
    return {true, os.str()};
}

// Failure classes: a shrink candidate must fail "the same way" (same first
// word group) so that shrinking does not wander to a different defect.
inline std::string failure_class(const std::string& msg) {
    auto p = msg.find(':');
    return p == std::string::npos ? msg : msg.substr(0, p);
}

inline json structural_shrink(
    const Property& prop, json c, std::string& msg, int budget = 4000) {
    if (!prop.shrinks) {
        return c;
    }
    auto cls = failure_class(msg);
    bool progress = true;
    while (progress && budget > 0) {
        progress = false;
        for (auto& cand : prop.shrinks(c)) {
            if (--budget <= 0) {
                break;
            }
            auto [failed, m] = run_forked(prop, cand);
            if (failed && failure_class(m) == cls) {
                c = cand;
                msg = m;
                progress = true;
                break;
            }
        }
    }
    return c;
}

inline int worker_main(
    int argc, char** argv,
    const std::function<std::optional<Property>(
        const std::string& id, const std::string& variant)>& lookup) {
    std::string id = getarg(argc, argv, "--prop");
    std::string variant = getarg(argc, argv, "--variant");
    std::string replay = getarg(argc, argv, "--replay");
    std::string shrink = getarg(argc, argv, "--shrink");
    std::string out = getarg(argc, argv, "--out");
    std::string trace = getarg(argc, argv, "--trace");
    std::string hashes_path = getarg(argc, argv, "--hashes");
    int max_samples = atoi(getarg(argc, argv, "--samples", "3").c_str());

    if (!replay.empty() || !shrink.empty()) {
        json file = load_json(!replay.empty() ? replay : shrink);
        id = file.value("property", id);
        variant = file.value("variant", variant);
        auto prop = lookup(id, variant);
        if (!prop) {
            fprintf(stderr, "unknown property %s/%s\n", id.c_str(),
                    variant.c_str());
            return 2;
        }
        if (!replay.empty()) {
            if (hasflag(argc, argv, "--fork")) {
                auto [failed, m] = run_forked(*prop, file["case"]);
                if (failed) {
                    printf("FAIL %s\n", m.c_str());
                    return 1;
                }
                printf("PASS\n");
                return 0;
            }
            Outcome o = prop->run(file["case"]);
            if (!o.ok && o.excluded.empty()) {
                printf("FAIL %s\n", o.message.c_str());
                return 1;
            }
            if (!o.excluded.empty()) {
                printf("EXCLUDED %s\n", o.excluded.c_str());
            }
            printf("PASS\n");
            return 0;
        }
        std::string msg = file.value("message", "");
        auto [failed, m0] = run_forked(*prop, file["case"]);
        if (!failed) {
            printf("NOFAIL\n");
            return 0;
        }
        msg = m0;
        json c = structural_shrink(*prop, file["case"], msg);
        file["case"] = c;
        file["message"] = msg;
        save_json(out.empty() ? shrink : out, file);
        printf("SHRUNK %s\n", msg.c_str());
        return 1;
    }

    auto prop = lookup(id, variant);
    if (!prop) {
        fprintf(stderr, "unknown property %s/%s\n", id.c_str(),
                variant.c_str());
        return 2;
    }

    Stats st;
    bool failed_once = false;
    json last_fail;
    std::string last_msg;
    int max_size = atoi(getarg(argc, argv, "--max-size", "100").c_str());
    FILE* tracef = trace.empty() ? nullptr : fopen(trace.c_str(), "w");

    auto body = [&]() {
        RcChoice ch;
        // the case size is itself the first pick, so small cases come first
        // under shrinking
        int size = 1 + int(ch.draw(std::uint32_t(max_size)));
        std::function<json()> lazy;
        Outcome o;
        if (prop->fast && !tracef) {
            o = prop->fast(ch, size, lazy);
        } else {
            json c = prop->generate(ch, size);
            if (tracef) {
                std::string s = c.dump();
                rewind(tracef);
                if (ftruncate(fileno(tracef), 0) != 0) {
                }
                fwrite(s.data(), 1, s.size(), tracef);
                fflush(tracef);
            }
            o = prop->run(c);
            lazy = [c]() { return c; };
        }
        if (!failed_once) {
            ++st.evaluations;
            if (o.inconclusive) {
                ++st.inconclusive;
            }
            for (auto cl : o.classes) {
                ++st.classes[cl];
            }
            if (!o.excluded.empty()) {
                ++st.excluded[o.excluded];
            } else if (o.nontrivial) {
                ++st.nontrivial;
                if (st.hashes.size() < 4000000) {
                    st.hashes.insert(o.hash);
                }
                if (int(st.samples.size()) < max_samples &&
                    st.nontrivial % 97 == 1) {
                    st.samples.push_back(lazy());
                }
            }
        }
        if (!o.ok && o.excluded.empty()) {
            failed_once = true;
            last_fail = lazy();
            last_msg = o.message;
            RC_FAIL(o.message);
        }
    };

    bool ok = rc::check(id + " " + variant, body);
    if (tracef) {
        fclose(tracef);
    }

    if (!ok && failed_once) {
        std::string msg = last_msg;
        json c = last_fail;
        if (!hasflag(argc, argv, "--no-shrink")) {
            c = structural_shrink(*prop, c, msg);
        }
        st.failures.push_back(
            {{"property", id}, {"variant", variant}, {"case", c},
             {"message", msg}});
    }

    if (st.samples.empty() && st.evaluations > 0 && !failed_once) {
        // make sure at least one sample exists
    }

    json res;
    res["property"] = id;
    res["variant"] = variant;
    res["evaluations"] = st.evaluations;
    res["nontrivial"] = st.nontrivial;
    res["distinct_nontrivial"] = st.hashes.size();
    res["inconclusive"] = st.inconclusive;
    res["classes"] = st.classes;
    res["excluded"] = st.excluded;
    res["samples"] = st.samples;
    res["failures"] = st.failures;
    res["rc_ok"] = ok;
    if (!out.empty()) {
        save_json(out, res);
    } else {
        printf("%s\n", res.dump(1).c_str());
    }
    if (!hashes_path.empty()) {
        FILE* f = fopen(hashes_path.c_str(), "wb");
        for (auto h : st.hashes) {
            fwrite(&h, 8, 1, f);
        }
        fclose(f);
    }
    if (getenv("VERIF_LEAK_CHECK") && __lsan_do_recoverable_leak_check) {
        // harness maintenance: workers leave through _exit, so the leak
        // detector never runs by itself
        __lsan_do_recoverable_leak_check();
        if (__sanitizer_print_memory_profile) {
            __sanitizer_print_memory_profile(95, 12);
        }
    }
    return st.failures.empty() && ok ? 0 : 1;
}

// ---------------------------------------------------------------------------
// libFuzzer entry shared by the small engines (E4, E5, E6): the bytes drive
// the same generators as rapidcheck does, the same oracle decides; a failing
// case is written as a replay file before trapping.

inline int fuzz_one(
    const std::uint8_t* data, std::size_t size, std::vector<Property>& table,
    const char* engine, int max_size = 60) {
    BytesChoice ch(data, size);
    auto& prop = table[ch.draw(std::uint32_t(table.size()))];
    int gsize = 1 + int(ch.draw(std::uint32_t(max_size)));
    json c = prop.generate(ch, gsize);
    if (const char* dump = getenv("VERIF_FUZZ_DUMP")) {
        // triage of a crashing input: record the decoded case before running
        save_json(dump, {{"property", prop.id},
                         {"variant", prop.variant},
                         {"engine", engine},
                         {"case", c},
                         {"message", "crash"},
                         {"crash", true}});
    }
    Outcome o = prop.run(c);
    if (!o.ok && o.excluded.empty()) {
        json fl = {{"property", prop.id},
                   {"variant", prop.variant},
                   {"engine", engine},
                   {"case", c},
                   {"message", o.message}};
        const char* dir = getenv("VERIF_FUZZ_OUT");
        std::string path = std::string(dir ? dir : ".") + "/fuzz-failure-" +
            std::to_string(o.hash) + ".json";
        save_json(path, fl);
        fprintf(stderr, "FUZZ-FAILURE %s %s\n", path.c_str(),
                o.message.c_str());
        __builtin_trap();
    }
    return 0;
}

} // namespace vf

#endif
