// Engine E2 worker.
#include "engine.hpp"

namespace e2 {

thread_local std::vector<BodyRec> g_log;
thread_local int g_deliveries;

using RunFn = vf::Outcome (*)(const vf::json&, const std::string&);
std::map<std::string, RunFn>& policies() {
    static std::map<std::string, RunFn> m;
    return m;
}

static const char* kPolicies[] = {"dbg", "rel", "dbg_ind", "rel_ind",
                                  "rel_map", "dbg_inh"};

// pool sizes per method name (must mirror engine.hpp)
static const std::map<std::string, int> kPool = {
    {"m1", 7}, {"m1x", 3}, {"m1v", 5}, {"m2", 21}, {"m2i", 21}, {"m3", 24}};

static vf::json gen_case(vf::Choice& ch, int size, const std::string& prop) {
    vf::json c;
    if (prop == "C15") {
        c["policy"] = ch.draw(2) ? "dbg_ind" : "dbg";
    } else {
        c["policy"] = kPolicies[ch.draw(6)];
    }
    int style = ch.draw(5);
    c["style"] = style;
    std::vector<int> order;
    for (int i = 0; i < 16; ++i) {
        order.push_back(i);
    }
    e1::permute(ch, order);
    c["order"] = order;
    c["left_out"] = -1;
    if (prop == "C15") {
        c["style"] = ch.draw(2) ? 4 : 2;
        c["left_out"] = int(ch.draw(NCLS));
    }
    vf::json defs = vf::json::object();
    for (auto& [name, n] : kPool) {
        std::vector<int> v;
        int k = ch.draw(std::min(n, 2 + size / 6) + 1);
        for (int i = 0; i < k; ++i) {
            v.push_back(int(ch.draw(n)));
        }
        defs[name] = v;
    }
    c["defs"] = defs;
    c["route_salt"] = int(ch.draw(60));
    c["legacy_handler"] = ch.chance(1, 3);
    if (prop == "C09") {
        c["history"] = ch.chance(1, 2);
        std::vector<int> v, w;
        int k = ch.draw(7);
        for (int i = 0; i < k; ++i) {
            v.push_back(int(ch.draw(7)));
        }
        k = ch.draw(5);
        for (int i = 0; i < k; ++i) {
            w.push_back(int(ch.draw(5)));
        }
        c["defs2_m1"] = v;
        c["defs2_m1v"] = w;
        c["padding"] = int(ch.draw(2));
        // leaf classes registered only before the second update (style 2)
        std::vector<int> late;
        int nl = ch.draw(4);
        for (int i = 0; i < nl; ++i) {
            late.push_back(int(ch.draw(4)));
        }
        c["late"] = late;
    }
    return c;
}

static std::optional<vf::Property>
lookup(const std::string& id, const std::string& variant) {
    static const std::set<std::string> served = {"C01", "C02", "C03", "C09",
                                                 "C11", "C15"};
    if (!served.count(id)) {
        return std::nullopt;
    }
    vf::Property p;
    p.id = id;
    p.variant = variant;
    p.generate = [id](vf::Choice& ch, int size) {
        return gen_case(ch, size, id);
    };
    p.run = [id](const vf::json& c) {
        auto it = policies().find(c.at("policy").get<std::string>());
        if (it == policies().end()) {
            vf::Outcome o;
            o.fail("unknown policy");
            return o;
        }
        vf::Outcome o = it->second(c, id);
        o.classes.push_back(it->first.c_str());
        return o;
    };
    p.shrinks = [](const vf::json& c) {
        std::vector<vf::json> out;
        for (auto& [name, n] : kPool) {
            auto& v = c["defs"][name];
            for (std::size_t i = 0; i < v.size(); ++i) {
                vf::json r = c;
                r["defs"][name].erase(i);
                out.push_back(r);
            }
        }
        if (c.value("history", false)) {
            vf::json r = c;
            r["history"] = false;
            out.push_back(r);
        }
        if (c.value("style", 0) != 0 && c.value("left_out", -1) < 0) {
            vf::json r = c;
            r["style"] = 0;
            out.push_back(r);
        }
        if (c.value("route_salt", 0) != 0) {
            vf::json r = c;
            r["route_salt"] = c.value("route_salt", 0) - 1;
            out.push_back(r);
        }
        return out;
    };
    return p;
}

} // namespace e2

int main(int argc, char** argv) {
    int rc = vf::worker_main(argc, argv, &e2::lookup);
    fflush(nullptr);
    _exit(rc);
}
