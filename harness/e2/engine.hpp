// Engine E2: per-policy template.  Real classes, real registration objects
// (class_declaration / use_classes, constructed and destroyed at run time in
// zeroed storage), real thunks (casts), every virtual_ptr construction route.
#ifndef VERIF_E2_ENGINE_HPP
#define VERIF_E2_ENGINE_HPP

#include <yorel/yomm2/core.hpp>

#include "../common/worker.hpp"
#include "../e1/spec.hpp" // the reference model (Spec, dispatch, next_of ...)
#include "universe.hpp"

#include <any>
#include <cstring>
#include <new>

namespace e2 {

using namespace yorel::yomm2;
using vf::json;
using vf::Outcome;

// ---------------------------------------------------------------------------
// what a definition body records

struct SeenArg {
    bool is_int = false;
    long value = 0;        // int arguments
    const void* addr = 0;  // object address as seen through the parameter
    const void* owner = 0; // shared_ptr flavours: a copy's raw pointer
    long use_count = 0;
    int probe = -1; // virtual_ptr flavours: the class a call made *through
                    // the pointer the definition received* dispatches on
};

struct BodyRec {
    const void* method;
    int def;
    std::vector<SeenArg> args;
};

// thread-local: the concurrent engine (C16) calls from several threads
extern thread_local std::vector<BodyRec> g_log;
extern thread_local int g_deliveries;

struct ErrorSeen {
    enum Kind { none, resolution, unknown_class, method_table, hash_search,
                other } kind = none;
    int status = 0;
    std::size_t arity = 0;
    type_id types[4] = {};
    type_id type = 0;
};

struct Thrown {
    ErrorSeen e;
};

inline ErrorSeen to_seen(const error_type& ev) {
    ErrorSeen s;
    if (auto e = std::get_if<resolution_error>(&ev)) {
        s.kind = ErrorSeen::resolution;
        s.status = e->status;
        s.arity = e->arity;
        for (int i = 0; i < 4; ++i) {
            s.types[i] = e->types[i];
        }
    } else if (auto e = std::get_if<unknown_class_error>(&ev)) {
        s.kind = ErrorSeen::unknown_class;
        s.type = e->type;
    } else if (auto e = std::get_if<method_table_error>(&ev)) {
        s.kind = ErrorSeen::method_table;
        s.type = e->type;
    } else if (std::get_if<hash_search_error>(&ev)) {
        s.kind = ErrorSeen::hash_search;
    } else {
        s.kind = ErrorSeen::other;
    }
    return s;
}

template<class F>
ErrorSeen guarded(F&& f) {
    try {
        f();
        return ErrorSeen();
    } catch (const Thrown& t) {
        return t.e;
    }
}

inline const char* err_name(const ErrorSeen& e) {
    static const char* n[] = {"none",         "resolution",  "unknown_class",
                              "method_table", "hash_search", "other"};
    return n[e.kind];
}

// ---------------------------------------------------------------------------
// parameter kinds

struct k_ref {
    static constexpr const char* name = "ref";
};
struct k_ptr {
    static constexpr const char* name = "ptr";
};
struct k_sp {
    static constexpr const char* name = "shared_ptr";
};
struct k_csp {
    static constexpr const char* name = "const_shared_ptr_ref";
};
struct k_vp {
    static constexpr const char* name = "virtual_ptr";
};
struct k_vsp {
    static constexpr const char* name = "virtual_shared_ptr";
};
struct k_cvsp {
    static constexpr const char* name = "const_virtual_shared_ptr_ref";
};
struct k_mixed { // first virtual parameter by reference, others virtual_ptr
    static constexpr const char* name = "ref_then_virtual_ptr";
};

template<class K, std::size_t VPos>
struct kind_at {
    using type = K;
};
template<std::size_t VPos>
struct kind_at<k_mixed, VPos> {
    using type = std::conditional_t<VPos == 0, k_ref, k_vp>;
};

template<class K, class T, class P>
struct kind_types;
template<class T, class P>
struct kind_types<k_ref, T, P> {
    using decl = virtual_<T&>;
    using arg = T&;
};
template<class T, class P>
struct kind_types<k_ptr, T, P> {
    using decl = virtual_<T*>;
    using arg = T*;
};
template<class T, class P>
struct kind_types<k_sp, T, P> {
    using decl = virtual_<std::shared_ptr<T>>;
    using arg = std::shared_ptr<T>;
};
template<class T, class P>
struct kind_types<k_csp, T, P> {
    using decl = virtual_<const std::shared_ptr<T>&>;
    using arg = const std::shared_ptr<T>&;
};
template<class T, class P>
struct kind_types<k_vp, T, P> {
    using decl = virtual_ptr<T, P>;
    using arg = virtual_ptr<T, P>;
};
template<class T, class P>
struct kind_types<k_vsp, T, P> {
    using decl = virtual_shared_ptr<T, P>;
    using arg = virtual_shared_ptr<T, P>;
};
template<class T, class P>
struct kind_types<k_cvsp, T, P> {
    using decl = const virtual_shared_ptr<T, P>&;
    using arg = const virtual_shared_ptr<T, P>&;
};

// ---------------------------------------------------------------------------
// method names: signature = list of classes and `int` (non-virtual)

template<class... T>
using L = mp::mp_list<T...>;

struct n_m1 {
    static constexpr const char* name = "m1";
    using sig = L<A>;
    using pool = L<L<A>, L<B>, L<C>, L<D>, L<E>, L<F>, L<G>>;
};
struct n_m1x {
    static constexpr const char* name = "m1x";
    using sig = L<X>;
    using pool = L<L<X>, L<E>, L<F>>;
};
struct n_m1v {
    static constexpr const char* name = "m1v";
    using sig = L<VR>;
    using pool = L<L<VR>, L<VL>, L<VM>, L<VZ>, L<VY>>;
};
struct n_m2 {
    static constexpr const char* name = "m2";
    using sig = L<A, X>;
    using pool = mp::mp_product<L, L<A, B, C, D, E, F, G>, L<X, E, F>>;
};
struct n_m2i {
    static constexpr const char* name = "m2i";
    using sig = L<A, int, X>;
    using pool = mp::mp_product<L, L<A, B, C, D, E, F, G>, L<X, E, F>>;
};
struct n_m3 {
    static constexpr const char* name = "m3";
    using sig = L<A, X, VR>;
    using pool = mp::mp_product<L, L<A, B, E, F>, L<X, E, F>, L<VR, VZ>>;
};

// the (name, kind) pairs instantiated per policy
using method_menu = L<
    L<n_m1, k_ref>, L<n_m1, k_ptr>, L<n_m1, k_sp>, L<n_m1, k_csp>,
    L<n_m1, k_vp>, L<n_m1, k_vsp>, L<n_m1, k_cvsp>, L<n_m1x, k_ref>,
    L<n_m1x, k_vp>, L<n_m1v, k_ref>, L<n_m1v, k_ptr>, L<n_m1v, k_sp>,
    L<n_m1v, k_vp>, L<n_m1v, k_vsp>, L<n_m1v, k_csp>, L<n_m1v, k_cvsp>,
    L<n_m2, k_ref>, L<n_m2, k_vp>,
    L<n_m2, k_vsp>, L<n_m2, k_mixed>, L<n_m2i, k_ref>, L<n_m2i, k_vp>,
    L<n_m3, k_ref>, L<n_m3, k_vp>>;

// number of class (virtual) elements of Sig before position Pos
template<class Sig, std::size_t Pos>
constexpr std::size_t virtual_index = mp::mp_count_if<
    mp::mp_take_c<Sig, Pos>, std::is_class>::value;

template<class N, class K>
struct key {};

// builds, for signature Sig and a tuple of classes Tuple (one per virtual
// position), the list of declared / argument types
template<class P, class K, class Sig, class Tuple, bool Decl, class Is>
struct params_impl;

template<
    class P, class K, class Sig, class Tuple, bool Decl, std::size_t... Is>
struct params_impl<P, K, Sig, Tuple, Decl, std::index_sequence<Is...>> {
    template<std::size_t I>
    struct one {
        using S = mp::mp_at_c<Sig, I>;
        template<class Dummy, bool IsClass>
        struct pick {
            using type = int;
        };
        template<class Dummy>
        struct pick<Dummy, true> {
            static constexpr std::size_t V = virtual_index<Sig, I>;
            using KT = kind_types<
                typename kind_at<K, V>::type, mp::mp_at_c<Tuple, V>, P>;
            using type =
                std::conditional_t<Decl, typename KT::decl, typename KT::arg>;
        };
        using type = typename pick<void, std::is_class_v<S>>::type;
    };
    using type = L<typename one<Is>::type...>;
};

template<class P, class K, class Sig, class Tuple, bool Decl>
using params_t = typename params_impl<
    P, K, Sig, Tuple, Decl,
    std::make_index_sequence<mp::mp_size<Sig>::value>>::type;

template<class Sig>
using sig_classes = mp::mp_copy_if<Sig, std::is_class>;

template<class P, class N, class K, class ParamList>
struct method_from;
template<class P, class N, class K, class... Ps>
struct method_from<P, N, K, L<Ps...>> {
    using type = method<key<N, K>, int(Ps...), P>;
};

template<class P, class N, class K>
using method_t = typename method_from<
    P, N, K,
    params_t<P, K, typename N::sig, sig_classes<typename N::sig>, true>>::type;

} // namespace e2

// The methods of kind `ref` read their slots and strides from static_offsets
// (the path a program compiled with generated offsets takes), filled from
// what update installed after every update (Engine::update).
namespace yorel::yomm2::detail {
template<class N, class P, class... Ps>
struct static_offsets<method<e2::key<N, e2::k_ref>, int(Ps...), P>> {
    static constexpr std::size_t NV = arity<Ps...>;
    static inline std::size_t slots[NV] = {};
    static inline std::size_t strides[NV > 1 ? NV - 1 : 1] = {};
};
} // namespace yorel::yomm2::detail

namespace e2 {

// Probes: uni-methods with one definition per class, called from inside the
// definition bodies through the virtual_ptr they received; the definition
// returns the index of its class.  (Set up per policy by the engine.)
template<class P>
struct Probes {
    static inline int (*plain_a)(virtual_ptr<A, P>) = nullptr;
    static inline int (*plain_x)(virtual_ptr<X, P>) = nullptr;
    static inline int (*plain_vr)(virtual_ptr<VR, P>) = nullptr;
    static inline int (*shared_a)(const virtual_shared_ptr<A, P>&) = nullptr;
    static inline int (*shared_x)(const virtual_shared_ptr<X, P>&) = nullptr;
    static inline int (*shared_vr)(const virtual_shared_ptr<VR, P>&) = nullptr;
    static inline bool enabled = false;

    template<class T>
    static int plain(const virtual_ptr<T, P>& p) {
        if (!enabled) {
            return -1;
        }
        if constexpr (std::is_base_of_v<A, T>) {
            return plain_a(p);
        } else if constexpr (std::is_base_of_v<X, T>) {
            return plain_x(p);
        } else {
            return plain_vr(p);
        }
    }
    template<class T>
    static int shared(const virtual_shared_ptr<T, P>& p) {
        if (!enabled) {
            return -1;
        }
        if constexpr (std::is_base_of_v<A, T>) {
            return shared_a(virtual_shared_ptr<A, P>(p));
        } else if constexpr (std::is_base_of_v<X, T>) {
            return shared_x(virtual_shared_ptr<X, P>(p));
        } else {
            return shared_vr(virtual_shared_ptr<VR, P>(p));
        }
    }
};

// recording what a body sees
inline void see(BodyRec& r, int v) {
    SeenArg s;
    s.is_int = true;
    s.value = v;
    r.args.push_back(s);
}
template<class T>
std::enable_if_t<std::is_class_v<T> && std::is_polymorphic_v<T>>
see(BodyRec& r, T& obj) {
    SeenArg s;
    s.addr = &obj;
    r.args.push_back(s);
}
template<class T>
void see(BodyRec& r, T* obj) {
    SeenArg s;
    s.addr = obj;
    r.args.push_back(s);
}
template<class T>
void see(BodyRec& r, const std::shared_ptr<T>& p) {
    SeenArg s;
    s.addr = p.get();
    s.use_count = p.use_count();
    auto copy = p; // shares ownership with the caller's pointer?
    s.owner = copy.get();
    r.args.push_back(s);
}
template<class T, class P>
void see(BodyRec& r, const virtual_ptr<T, P>& p) {
    if constexpr (std::is_class_v<T> && std::is_polymorphic_v<T>) {
        SeenArg s;
        s.addr = p.get();
        s.probe = Probes<P>::template plain<T>(p);
        r.args.push_back(s);
    } else {
        see(r, p.get()); // virtual_shared_ptr: the boxed shared_ptr
        r.args.back().probe =
            Probes<P>::template shared<typename T::element_type>(p);
    }
}

template<class M, class Tuple, int Index, class ArgList>
struct Def;

template<class M, class Tuple, int Index, class... Args>
struct Def<M, Tuple, Index, L<Args...>> {
    static inline typename M::next_type next = nullptr;
    static int fn(Args... args) {
        BodyRec r;
        r.method = &M::fn;
        r.def = Index;
        (see(r, args), ...);
        g_log.push_back(std::move(r));
        return 100 + Index;
    }
};

// ---------------------------------------------------------------------------
// run-time constructed registration objects

template<class T>
struct Slot {
    alignas(T) unsigned char mem[sizeof(T)];
    bool live = false;
    void construct() {
        std::memset(mem, 0, sizeof mem); // static storage is zero-initialised
        new (mem) T();
        live = true;
    }
    void destroy() {
        if (live) {
            reinterpret_cast<T*>(mem)->~T();
            live = false;
        }
    }
};

// ---------------------------------------------------------------------------
// type-erased view of one method, for the engine's run-time loops

struct DefEntry {
    std::vector<int> cls; // class index per virtual position
    void* pf;             // real thunk
    // the record that the library's own add_function built (its static
    // definition_info), detached from the catalog until the case wants it
    detail::definition_info* info = nullptr;
    void** next = nullptr;
};

struct CallArg {
    int d = 0;     // dynamic class
    int route = 0; // virtual_ptr construction route (vp kinds)
    int s = -1;    // static class of the intermediate pointer (vp kinds)
};

struct MethodEntry {
    std::string name, kind;
    std::vector<int> vp;       // parameter class per virtual position
    std::vector<int> shape;    // per parameter: class index or -1 (int)
    std::vector<DefEntry> pool;
    detail::method_info* info = nullptr;
    bool uses_virtual_ptr = false, uses_shared = false;
    // calls through the method object; fills `expected_md` with the
    // most-derived address of the object actually passed at each virtual
    // position; `identity` collects get()/*/-> failures
    std::function<int(
        const std::vector<CallArg>&, std::vector<const void*>& expected_md,
        std::string& identity)>
        call;
    std::function<void*(const std::vector<CallArg>&)> resolve;
};

// Whether a policy was *written* as an indirect one: stated by the policy's
// translation unit, not asked of the library (a library that forgets that a
// policy is indirect must not make the harness forget it too).
template<class P>
struct DeclaredIndirect;

template<class P>
struct Engine {
    static constexpr bool checked =
        policy::has_facet<P, policy::runtime_checks>;
    static constexpr bool indirect = DeclaredIndirect<P>::value;

    // ---- registration styles ----------------------------------------------
    // s0: one use_classes with every class
    using all_in_one = use_classes<A, B, C, D, E, F, G, X, VR, VL, VM, VZ, VY, P>;
    // s1: per edge, as in examples/dl.hpp
    using per_edge = L<
        use_classes<A, P>, use_classes<X, P>, use_classes<VR, P>,
        use_classes<B, A, P>, use_classes<C, A, P>, use_classes<D, B, P>,
        use_classes<E, B, P>, use_classes<E, X, P>, use_classes<F, C, P>,
        use_classes<F, X, P>, use_classes<G, D, P>, use_classes<VL, VR, P>,
        use_classes<VM, VR, P>, use_classes<VZ, VL, P>,
        use_classes<VZ, VM, P>, use_classes<VY, VZ, P>>;
    // s2: per class, direct bases only; index = class index
    using per_class = L<
        class_declaration<A, P>, class_declaration<B, A, P>,
        class_declaration<C, A, P>, class_declaration<D, B, P>,
        class_declaration<E, B, X, P>, class_declaration<F, C, X, P>,
        class_declaration<G, D, P>, class_declaration<X, P>,
        class_declaration<VR, P>, class_declaration<VL, VR, P>,
        class_declaration<VM, VR, P>, class_declaration<VZ, VL, VM, P>,
        class_declaration<VY, VZ, P>>;

    // s4: as s2, in the type-list form class_declaration<types<...>>
    template<class... T>
    using CDT = class_declaration<detail::types<T...>>;
    using per_class_types = L<
        CDT<A, P>, CDT<B, A, P>, CDT<C, A, P>, CDT<D, B, P>, CDT<E, B, X, P>,
        CDT<F, C, X, P>, CDT<G, D, P>, CDT<X, P>, CDT<VR, P>, CDT<VL, VR, P>,
        CDT<VM, VR, P>, CDT<VZ, VL, VM, P>, CDT<VY, VZ, P>>;

    template<class List>
    struct slots_of;
    template<class... T>
    struct slots_of<L<T...>> {
        std::tuple<Slot<T>...> slots;
        void construct(std::size_t i) {
            mp::mp_with_index<sizeof...(T)>(
                i, [&](auto I) { std::get<decltype(I)::value>(slots).construct(); });
        }
        void destroy_all() {
            // reverse order of construction is not required by the library
            std::apply([](auto&... s) { (s.destroy(), ...); }, slots);
        }
    };

    Slot<all_in_one> s0;
    slots_of<per_edge> s1;
    slots_of<per_class> s2;
    slots_of<per_class_types> s4;

    // order: a permutation seed applied to the records of s1 / s2
    // per-class registration of classes that were held back (C09 histories)
    void register_late(const std::vector<int>& late) {
        for (int i : late) {
            s2.construct(i);
        }
    }

    void register_classes(
        int style, int left_out, const std::vector<int>& order,
        const std::vector<int>& late = {}) {
        if (style == 3) {
            // redundant mix: every class registered several times, completely
            // and incompletely, in the given order
            for (int i : order) {
                if (i < int(mp::mp_size<per_edge>::value) && i % 2 == 0) {
                    s1.construct(i);
                }
            }
            s0.construct();
            for (int i : order) {
                if (i < NCLS && i % 3 != 0) {
                    s2.construct(i);
                }
            }
        } else if (style == 0) {
            s0.construct();
        } else if (style == 1) {
            for (int i : order) {
                if (i < int(mp::mp_size<per_edge>::value)) {
                    s1.construct(i);
                }
            }
        } else {
            for (int i : order) {
                if (i < NCLS && i != left_out &&
                    std::find(late.begin(), late.end(), i) == late.end()) {
                    if (style == 4) {
                        s4.construct(i);
                    } else {
                        s2.construct(i);
                    }
                }
            }
        }
    }

    void unregister_classes() {
        s0.destroy();
        s1.destroy_all();
        s2.destroy_all();
        s4.destroy_all();
    }

    // ---- methods -----------------------------------------------------------

    Objects objects;
    static inline thread_local std::vector<std::shared_ptr<void>> keepalive;
    std::vector<MethodEntry> methods;
    std::deque<detail::definition_info> def_store;
    std::deque<void*> next_store;

    template<class T>
    using VP = virtual_ptr<T, P>;
    template<class T>
    using VSP = virtual_shared_ptr<T, P>;

    // identity of a plain virtual_ptr: get, *, ->
    template<class T>
    static void check_identity(
        const VP<T>& p, T* expected, std::string& identity,
        const char* where) {
        if (p.get() != expected || &*p != expected ||
            p.operator->() != expected) {
            identity = std::string("get/*/-> of a virtual_ptr<") +
                class_name(index_of<T>) + "> do not give back the object (" +
                where + ")";
        }
    }

    template<class T>
    static void check_identity(
        const VSP<T>& p, const std::shared_ptr<T>& expected,
        std::string& identity, const char* where) {
        auto boxed = p.get();
        if (boxed.get() != expected.get() || &*p != expected.get() ||
            boxed.owner_before(expected) || expected.owner_before(boxed)) {
            identity = std::string("a virtual_shared_ptr<") +
                class_name(index_of<T>) +
                "> does not share the original object (" + where + ")";
        }
    }

    // Pointers to const: a virtual_ptr<const X> / virtual_shared_ptr<const X>
    // built through final, from the exact static type, through the lookup
    // route or by make_virtual_shared refers to the same v-table (and object)
    // as a pointer to the same object built without the const.
    template<class T, class St, class Dt>
    static void check_const_twins(
        const std::uintptr_t* want, Dt& obj, std::string& identity) {
        const Dt& cobj = obj;
        auto c1 = virtual_ptr<const Dt, P>::final(cobj);
        virtual_ptr<const Dt, P> c2(cobj);
        virtual_ptr<const St, P> c3(static_cast<const St&>(cobj));
        virtual_ptr<const T, P> c4(c3);
        if (c1._vptr() != want || c2._vptr() != want || c3._vptr() != want ||
            c4._vptr() != want) {
            identity = std::string("a virtual_ptr to a const ") +
                class_name(index_of<Dt>) +
                " (final / exact / from base reference / converted) does not "
                "carry the v-table pointer of its class";
        } else if (
            c1.get() != &cobj || c4.get() != static_cast<const T*>(&cobj)) {
            identity = std::string("get of a virtual_ptr to a const ") +
                class_name(index_of<Dt>) + " does not give back the object";
        }
    }

    template<class St, class Dt>
    static void check_const_shared_twins(
        const std::uintptr_t* want, const std::shared_ptr<Dt>& exact,
        std::string& identity) {
        auto c1 = VSP<const Dt>::final(std::shared_ptr<const Dt>(exact));
        VSP<const St> c2{std::shared_ptr<const St>(exact)};
        const std::shared_ptr<const St> csp = exact;
        VSP<const St> c3(csp);
        auto c4 = make_virtual_shared<const Dt, P>();
        if (c1._vptr() != want || c2._vptr() != want || c3._vptr() != want ||
            c4._vptr() != want) {
            identity = std::string("a virtual_shared_ptr to a const ") +
                class_name(index_of<Dt>) +
                " (final / rvalue / const lvalue shared_ptr / "
                "make_virtual_shared) does not carry the v-table pointer of "
                "its class";
        } else if (c1.get().get() != exact.get() ||
                   c3.get().get() != exact.get()) {
            identity = std::string("a virtual_shared_ptr to a const ") +
                class_name(index_of<Dt>) + " does not share the object";
        }
    }

    static constexpr int N_VP_ROUTES = 6;
    static const char* vp_route_name(int r) {
        static const char* n[] = {"from_base_reference", "exact_then_convert",
                                  "final_then_convert",
                                  "final_virtual_ptr_then_convert",
                                  "static_type_S_copy_move_convert",
                                  "exact_const_lvalue_convert"};
        return n[r % N_VP_ROUTES];
    }

    // Builds a virtual_ptr<T> to the object of dynamic class a.d through the
    // requested route; S is the static class of the intermediate pointer.
    template<class T, class St, class Dt>
    VP<T> vp_route(int route, std::string& identity, int d) {
        Dt& obj = *static_cast<Dt*>(objects.most_derived[d]);
        St* as_s = &obj;
        T* as_t = &obj;
        switch (route % N_VP_ROUTES) {
        case 0: {
            VP<T> t(static_cast<T&>(obj));
            check_identity<T>(t, as_t, identity, "base reference");
            return t;
        }
        case 1: {
            VP<Dt> e(obj);
            check_identity<Dt>(e, &obj, identity, "exact type");
            VP<St> sp(e); // converting copy, non-const lvalue
            check_identity<St>(sp, as_s, identity, "converted");
            VP<T> t(sp);
            check_identity<T>(t, as_t, identity, "converted");
            return t;
        }
        case 2: {
            auto e = VP<Dt>::final(obj);
            check_identity<Dt>(e, &obj, identity, "final");
            const auto& ce = e;
            VP<St> sp(ce); // converting copy, const lvalue
            VP<T> t(sp);
            check_identity<T>(t, as_t, identity, "final, converted");
            return t;
        }
        case 3: {
            auto e = final_virtual_ptr<P>(obj);
            VP<St> sp(std::move(e)); // converting move
            VP<T> t(std::move(sp));
            check_identity<T>(t, as_t, identity, "final_virtual_ptr, moved");
            return t;
        }
        case 4: {
            VP<St> s1(static_cast<St&>(obj));
            VP<St> s2(s1);            // same-type copy
            VP<St> s3(std::move(s2)); // same-type move
            check_identity<St>(s3, as_s, identity, "copied, moved");
            VP<T> t(s3);
            check_identity<T>(t, as_t, identity, "converted");
            // copy- and move-assignment from a pointer to another object
            VP<T> u(*objects.template as<T>(index_of<T>));
            u = t;
            VP<T> v(*objects.template as<T>(index_of<T>));
            v = std::move(u);
            check_identity<T>(v, as_t, identity, "assigned");
            return v;
        }
        default: {
            const VP<Dt> e(obj);
            VP<T> t(e);
            check_identity<T>(t, as_t, identity, "const exact");
            return t;
        }
        }
    }

    // Builds a virtual_ptr<T> to the object of dynamic class a.d through the
    // requested route; S is the static class of the intermediate pointer.
    template<class T>
    VP<T> make_vp(const CallArg& a, std::string& identity) {
        std::optional<VP<T>> result;
        int s = a.s >= 0 && isa(a.d, a.s) && isa(a.s, index_of<T>)
            ? a.s
            : index_of<T>;
        with_class(a.d, [&](auto dtag) {
            with_class(s, [&](auto stag) {
                using Dt = typename decltype(dtag)::type;
                using St = typename decltype(stag)::type;
                if constexpr (
                    std::is_base_of_v<T, St> && std::is_base_of_v<St, Dt>) {
                    result.emplace(this->template vp_route<T, St, Dt>(
                        a.route, identity, a.d));
                    if (identity.empty()) {
                        check_const_twins<T, St, Dt>(
                            result->_vptr(),
                            *static_cast<Dt*>(objects.most_derived[a.d]),
                            identity);
                    }
                }
            });
        });
        return *result;
    }

    static constexpr int N_VSP_ROUTES = 6;
    static const char* vsp_route_name(int r) {
        static const char* n[] = {"const_lvalue_shared_ptr",
                                  "lvalue_shared_ptr",
                                  "rvalue_shared_ptr",
                                  "make_virtual_shared_then_convert",
                                  "final_then_convert",
                                  "exact_shared_ptr_then_convert"};
        return n[r % N_VSP_ROUTES];
    }

    template<class T, class St, class Dt>
    VSP<T> vsp_route(int route, std::string& identity, const void*& md) {
        std::shared_ptr<Dt> exact = objects.template shared<Dt>();
        std::shared_ptr<T> as_t = exact;
        std::optional<VSP<T>> result;
        switch (route % N_VSP_ROUTES) {
        case 0: {
            const std::shared_ptr<St> sp = exact;
            VSP<St> v(sp);
            check_identity<St>(v, sp, identity, "const lvalue");
            result.emplace(VSP<T>(v));
            break;
        }
        case 1: {
            std::shared_ptr<St> sp = exact;
            VSP<St> v(sp);
            check_identity<St>(v, sp, identity, "lvalue");
            result.emplace(VSP<T>(v));
            break;
        }
        case 2: {
            std::shared_ptr<St> sp = exact;
            std::shared_ptr<St> keep = sp;
            VSP<St> v(std::move(sp));
            check_identity<St>(v, keep, identity, "rvalue");
            result.emplace(VSP<T>(std::move(v)));
            break;
        }
        case 3: {
            auto v = make_virtual_shared<Dt, P>();
            md = v.get().get();
            as_t = v.get();
            keepalive.push_back(v.get()); // the oracle looks at it later
            VSP<St> sv(v);
            result.emplace(VSP<T>(sv));
            break;
        }
        case 4: {
            // as make_virtual_shared does: final on an rvalue
            auto v = VSP<Dt>::final(std::shared_ptr<Dt>(exact));
            check_identity<Dt>(v, exact, identity, "final");
            VSP<St> sv(v);
            result.emplace(VSP<T>(sv));
            break;
        }
        default: {
            const std::shared_ptr<Dt> cexact = exact;
            VSP<Dt> v(cexact);
            result.emplace(VSP<T>(v));
        }
        }
        check_identity<T>(*result, as_t, identity, "converted to parameter");
        if (identity.empty()) {
            check_const_shared_twins<St, Dt>(
                result->_vptr(), exact, identity);
        }
        return *result;
    }

    // `md` receives the most-derived address of the object pointed to (a
    // fresh object for make_virtual_shared)
    template<class T>
    VSP<T> make_vsp(const CallArg& a, std::string& identity, const void*& md) {
        std::optional<VSP<T>> result;
        int s = a.s >= 0 && isa(a.d, a.s) && isa(a.s, index_of<T>)
            ? a.s
            : index_of<T>;
        md = objects.most_derived[a.d];
        with_class(a.d, [&](auto dtag) {
            with_class(s, [&](auto stag) {
                using Dt = typename decltype(dtag)::type;
                using St = typename decltype(stag)::type;
                if constexpr (
                    std::is_base_of_v<T, St> && std::is_base_of_v<St, Dt>) {
                    result.emplace(this->template vsp_route<T, St, Dt>(
                        a.route, identity, md));
                }
            });
        });
        return *result;
    }

    // one argument of kind K for parameter class T
    template<class K, class T>
    auto make_arg(
        const CallArg& a, std::string& identity, const void*& md) {
        md = objects.most_derived[a.d];
        if constexpr (std::is_same_v<K, k_ref>) {
            return std::ref(*objects.template as<T>(a.d));
        } else if constexpr (std::is_same_v<K, k_ptr>) {
            return objects.template as<T>(a.d);
        } else if constexpr (
            std::is_same_v<K, k_sp> || std::is_same_v<K, k_csp>) {
            return objects.template shared_as<T>(a.d);
        } else if constexpr (std::is_same_v<K, k_vp>) {
            return make_vp<T>(a, identity);
        } else {
            return make_vsp<T>(a, identity, md);
        }
    }

    template<class N, class K>
    void add_method() {
        using M = method_t<P, N, K>;
        using Sig = typename N::sig;
        constexpr std::size_t NP = mp::mp_size<Sig>::value;
        MethodEntry me;
        me.name = N::name;
        me.kind = K::name;
        me.info = &M::fn;
        mp::mp_for_each<mp::mp_iota_c<NP>>([&](auto I) {
            using S = mp::mp_at_c<Sig, decltype(I)::value>;
            if constexpr (std::is_class_v<S>) {
                me.vp.push_back(index_of<S>);
                me.shape.push_back(index_of<S>);
            } else {
                me.shape.push_back(-1);
            }
        });
        me.uses_virtual_ptr = !std::is_same_v<K, k_ref> &&
            !std::is_same_v<K, k_ptr> && !std::is_same_v<K, k_sp> &&
            !std::is_same_v<K, k_csp>;
        me.uses_shared = std::is_same_v<K, k_sp> || std::is_same_v<K, k_csp> ||
            std::is_same_v<K, k_vsp> || std::is_same_v<K, k_cvsp>;
        // definition pool
        using Pool = typename N::pool;
        mp::mp_for_each<mp::mp_iota_c<mp::mp_size<Pool>::value>>([&](auto I) {
            using Tuple = mp::mp_at_c<Pool, decltype(I)::value>;
            using Args = params_t<P, K, Sig, Tuple, false>;
            using D = Def<M, Tuple, decltype(I)::value, Args>;
            DefEntry de;
            mp::mp_for_each<mp::mp_transform<mp::mp_identity, Tuple>>(
                [&](auto t) {
                    de.cls.push_back(index_of<typename decltype(t)::type>);
                });
            de.pf = (void*)detail::thunk<
                P, typename M::signature_type, D::fn, mp::mp_rename<Args, detail::types>>::fn;
            // register through the real add_function, then take the record
            // out of the catalog: cases decide which definitions are live
            {
                typename M::template add_function<D::fn> adder(&D::next);
                // a second registration object for the same function, this
                // time without a next pointer (C18's domain: instantiated
                // twice); it must leave the first registration intact
                typename M::template add_function<D::fn> again;
                detail::definition_info* last = nullptr;
                for (auto& di : M::fn.specs) {
                    last = &di;
                }
                de.info = last;
                de.next = reinterpret_cast<void**>(&D::next);
                M::fn.specs.remove(*last);
            }
            me.pool.push_back(de);
        });
        // calling
        me.call = [this](
                      const std::vector<CallArg>& args,
                      std::vector<const void*>& md, std::string& identity) {
            return call_impl<N, K>(
                args, md, identity, false, nullptr,
                std::make_index_sequence<NP>());
        };
        me.resolve = [this](const std::vector<CallArg>& args) {
            std::vector<const void*> md;
            std::string identity;
            void* r = nullptr;
            call_impl<N, K>(
                args, md, identity, true, &r, std::make_index_sequence<NP>());
            return r;
        };
        methods.push_back(std::move(me));
    }

    template<class N, class K, std::size_t I>
    auto make_param(
        const std::vector<CallArg>& args, std::vector<const void*>& md,
        std::string& identity) {
        using Sig = typename N::sig;
        using S = mp::mp_at_c<Sig, I>;
        if constexpr (std::is_class_v<S>) {
            constexpr std::size_t V = virtual_index<Sig, I>;
            using KV = typename kind_at<K, V>::type;
            return make_arg<KV, S>(args[V], identity, md[V]);
        } else {
            return int(1000 + I);
        }
    }

    template<class N, class K, std::size_t... Is>
    int call_impl(
        const std::vector<CallArg>& args, std::vector<const void*>& md,
        std::string& identity, bool only_resolve, void** resolved,
        std::index_sequence<Is...>) {
        using M = method_t<P, N, K>;
        md.assign(args.size(), nullptr);
        // make_tuple turns reference_wrapper<T> into T&
        auto tup = std::make_tuple(make_param<N, K, Is>(args, md, identity)...);
        if (only_resolve) {
            *resolved = (void*)M::fn.resolve(rarg(std::get<Is>(tup))...);
            return 0;
        }
        return M::fn(std::get<Is>(tup)...);
    }

    // what operator() passes to resolve: rarg of each argument
    template<class T>
    static const T& rarg(T& v) {
        return v;
    }
    template<class T>
    static const T& rarg(T*& p) {
        return *p;
    }
    template<class T>
    static const T& rarg(std::shared_ptr<T>& p) {
        return *p;
    }

    // ---- probes -------------------------------------------------------------
    std::vector<std::pair<int, detail::definition_info*>> probe_defs;
    std::vector<detail::definition_info*> live_probe_defs;

    // the probe definitions of the classes registered now
    template<class Pred>
    void register_probe_defs(Pred registered) {
        for (auto& [cls, di] : probe_defs) {
            bool live = std::find(live_probe_defs.begin(),
                                  live_probe_defs.end(),
                                  di) != live_probe_defs.end();
            if (registered(cls) && !live) {
                di->method->specs.push_back(*di);
                live_probe_defs.push_back(di);
            }
        }
    }

    void clear_probe_defs() {
        for (auto di : live_probe_defs) {
            di->method->specs.remove(*di);
        }
        live_probe_defs.clear();
    }

    template<class Root, bool Shared>
    struct probe_key {};

    template<class Root>
    using plain_probe = method<
        probe_key<Root, false>, int(virtual_ptr<Root, P>), P>;
    template<class Root>
    using shared_probe = method<
        probe_key<Root, true>, int(const virtual_shared_ptr<Root, P>&), P>;

    template<class T>
    static int plain_probe_def(virtual_ptr<T, P>) {
        return index_of<T>;
    }
    template<class T>
    static int shared_probe_def(const virtual_shared_ptr<T, P>&) {
        return index_of<T>;
    }

    template<class Root>
    void add_probes() {
        mp::mp_for_each<mp::mp_transform<mp::mp_identity, classes>>(
            [&](auto tag) {
                using T = typename decltype(tag)::type;
                if constexpr (std::is_base_of_v<Root, T>) {
                    // registered through the real add_function, then taken
                    // out of the catalog: live only while T is registered
                    auto detach = [&](detail::method_info& mi) {
                        detail::definition_info* last = nullptr;
                        for (auto& di : mi.specs) {
                            last = &di;
                        }
                        mi.specs.remove(*last);
                        probe_defs.push_back({index_of<T>, last});
                    };
                    static typename plain_probe<Root>::template add_function<
                        plain_probe_def<T>>
                        a;
                    detach(plain_probe<Root>::fn);
                    static typename shared_probe<Root>::template add_function<
                        shared_probe_def<T>>
                        b;
                    detach(shared_probe<Root>::fn);
                }
            });
    }

    Engine() {
        add_probes<A>();
        add_probes<X>();
        add_probes<VR>();
        Probes<P>::plain_a = [](virtual_ptr<A, P> p) {
            return plain_probe<A>::fn(p);
        };
        Probes<P>::plain_x = [](virtual_ptr<X, P> p) {
            return plain_probe<X>::fn(p);
        };
        Probes<P>::plain_vr = [](virtual_ptr<VR, P> p) {
            return plain_probe<VR>::fn(p);
        };
        Probes<P>::shared_a = [](const virtual_shared_ptr<A, P>& p) {
            return shared_probe<A>::fn(p);
        };
        Probes<P>::shared_x = [](const virtual_shared_ptr<X, P>& p) {
            return shared_probe<X>::fn(p);
        };
        Probes<P>::shared_vr = [](const virtual_shared_ptr<VR, P>& p) {
            return shared_probe<VR>::fn(p);
        };
        mp::mp_for_each<mp::mp_transform<mp::mp_identity, method_menu>>(
            [&](auto pair) {
                using Pair = typename decltype(pair)::type;
                add_method<mp::mp_first<Pair>, mp::mp_second<Pair>>();
            });
    }

    // ---- policy state ------------------------------------------------------

    static constexpr bool has_legacy_route =
        std::is_base_of_v<policy::backward_compatible_error_handler<P>, P>;

    // legacy = true: resolution errors are observed through the deprecated
    // call_error handler (the route set_method_call_error_handler installs),
    // reached from the policy's default error handler
    static void install_handler(bool legacy = false) {
        if constexpr (has_legacy_route) {
            if (legacy) {
                P::error = policy::backward_compatible_error_handler<
                    P>::default_error_handler;
                P::call_error = [](const method_call_error& e,
                                   std::size_t arity, type_id* ids) {
                    ++g_deliveries;
                    ErrorSeen s;
                    s.kind = ErrorSeen::resolution;
                    s.status = e.code;
                    s.arity = arity;
                    for (std::size_t i = 0; i < 4 && i < arity; ++i) {
                        s.types[i] = ids[i];
                    }
                    throw Thrown{s};
                };
                return;
            }
        }
        P::error = [](const error_type& ev) {
            ++g_deliveries;
            throw Thrown{to_seen(ev)};
        };
    }

    std::vector<detail::definition_info*> live_defs;

    void clear_definitions() {
        for (auto di : live_defs) {
            di->method->specs.remove(*di);
        }
        live_defs.clear();
    }

    // registers pool entries `defs` (indices) of method m, in that order,
    // through the records built by the library's add_function
    void register_defs(std::size_t m, const std::vector<int>& defs) {
        for (int d : defs) {
            auto di = methods[m].pool[d].info;
            *methods[m].pool[d].next = nullptr;
            methods[m].info->specs.push_back(*di);
            live_defs.push_back(di);
        }
    }

    static_assert(
        detail::has_static_offsets<method_t<P, n_m1, k_ref>>::value &&
            detail::has_static_offsets<method_t<P, n_m3, k_ref>>::value &&
            !detail::has_static_offsets<method_t<P, n_m1, k_ptr>>::value,
        "the ref-kind methods use static offsets");

    ErrorSeen update(std::shared_ptr<detail::compiler<P>>* comp = nullptr) {
        return guarded([&] {
            auto c = std::make_shared<detail::compiler<P>>(
                yorel::yomm2::update<P>());
            if (comp) {
                *comp = c;
            }
            mp::mp_for_each<mp::mp_transform<mp::mp_identity, method_menu>>(
                [&](auto tag) {
                    using NK = typename decltype(tag)::type;
                    using M = method_t<P, mp::mp_first<NK>, mp::mp_second<NK>>;
                    if constexpr (detail::has_static_offsets<M>::value) {
                        using SO = detail::static_offsets<M>;
                        constexpr std::size_t NV = M::arity;
                        for (std::size_t i = 0; i < NV; ++i) {
                            SO::slots[i] = M::fn.slots_strides_ptr[i];
                        }
                        for (std::size_t i = 0; i + 1 < NV; ++i) {
                            SO::strides[i] = M::fn.slots_strides_ptr[NV + i];
                        }
                    }
                });
        });
    }

    void reset_tables() {
        P::dispatch_data.clear();
        P::vptrs.clear();
        if constexpr (indirect) {
            P::indirect_vptrs.clear();
        }
        if constexpr (policy::has_facet<P, policy::type_hash>) {
            P::hash_mult = 0;
            P::hash_shift = 0;
            P::hash_length = 0;
            P::hash_min = 0;
            P::hash_max = 0;
        }
        if constexpr (checked) {
            P::control.clear();
        }
        mp::mp_for_each<mp::mp_transform<mp::mp_identity, classes>>(
            [&](auto tag) {
                P::template static_vptr<typename decltype(tag)::type> = nullptr;
            });
    }

    template<class T>
    static type_id static_id() {
        return P::template static_type<T>();
    }
    static type_id static_id_of(int c) {
        type_id r = 0;
        with_class(c, [&](auto tag) {
            r = P::template static_type<typename decltype(tag)::type>();
        });
        return r;
    }
};

} // namespace e2

#endif
