// Engine E2 under ThreadSanitizer (C16): concurrent calls on a settled
// policy while another policy is being updated.
#ifndef VERIF_E2_THREADS_HPP
#define VERIF_E2_THREADS_HPP

#include "run.hpp"

#include <atomic>
#include <thread>

namespace e2 {

struct ThreadOp {
    int method, tuple, salt;
    bool yield;
    bool resolve_only;
};

// the policy that is updated concurrently (never the one being called)
struct upd_policy : policy::release::rebind<upd_policy> {};
template<>
struct DeclaredIndirect<upd_policy> : std::false_type {};

template<class P>
Outcome run_threads(const json& c, const std::string&) {
    Outcome o;
    vf::Fnv h;
    h.add(c.dump());
    o.hash = h.h;
    Engine<P>& eng = engine<P>();
    using Eng = Engine<P>;
    eng.clear_definitions();
    eng.clear_probe_defs();
    eng.unregister_classes();
    eng.reset_tables();
    Eng::install_handler(c.value("legacy_handler", false));
    Probes<P>::enabled = false;
    std::vector<int> order;
    for (int i = 0; i < 16; ++i) {
        order.push_back(i);
    }
    eng.register_classes(c.value("style", 0), -1, order);
    Spec s = universe_spec();
    for (std::size_t m = 0; m < eng.methods.size(); ++m) {
        auto& me = eng.methods[m];
        MethSpec ms;
        ms.vp = me.vp;
        std::vector<int> live;
        if (c["defs"].contains(me.name)) {
            for (int d : c["defs"][me.name].template get<std::vector<int>>()) {
                d %= int(me.pool.size());
                if (std::find(live.begin(), live.end(), d) == live.end()) {
                    live.push_back(d);
                    DefSpec ds;
                    ds.cls = me.pool[d].cls;
                    ds.fn = d;
                    ms.defs.push_back(ds);
                }
            }
        }
        eng.register_defs(m, live);
        s.meths.push_back(ms);
    }
    ErrorSeen ue = eng.update();
    if (ue.kind != ErrorSeen::none) {
        if (ue.kind == ErrorSeen::hash_search) {
            o.inconclusive = true;
        } else {
            o.fail("threads-update-error");
        }
        return o;
    }
    // sequential table: tuples and expected outcome per method
    std::vector<std::vector<std::vector<int>>> tuples(eng.methods.size());
    std::vector<std::vector<int>> expected(eng.methods.size());
    for (std::size_t m = 0; m < eng.methods.size(); ++m) {
        e1::Tuples tu(s, s.meths[m], 500);
        while (tu.next()) {
            tuples[m].push_back(tu.t);
            Sel sel = e1::dispatch(s, s.meths[m], tu.t.data());
            expected[m].push_back(
                sel.kind == K_DEF ? s.meths[m].defs[sel.def].fn
                                  : -1 - int(sel.kind));
        }
    }
    // the unrelated policy, updated concurrently
    Engine<upd_policy>& upd = engine<upd_policy>();
    upd.clear_definitions();
    upd.clear_probe_defs();
    upd.unregister_classes();
    upd.reset_tables();
    Engine<upd_policy>::install_handler();
    upd.register_classes(0, -1, order);
    for (std::size_t m = 0; m < upd.methods.size(); ++m) {
        upd.register_defs(m, {0});
    }
    int upd_rounds = c.value("updates", 5);

    int nthreads = c.value("threads", 2);
    std::vector<std::vector<ThreadOp>> ops(nthreads);
    {
        // per-thread operation lists from the case's own seeds
        int t = 0;
        for (auto& jt : c.at("thread_seeds")) {
            if (t >= nthreads) {
                break;
            }
            std::uint64_t x = jt.template get<std::uint64_t>() | 1;
            int n = c.value("ops", 200);
            for (int i = 0; i < n; ++i) {
                x ^= x << 13;
                x ^= x >> 7;
                x ^= x << 17;
                ThreadOp op;
                op.method = int(x % eng.methods.size());
                if (tuples[op.method].empty()) {
                    continue;
                }
                op.tuple = int((x >> 16) % tuples[op.method].size());
                op.salt = int((x >> 32) % 60);
                op.yield = ((x >> 40) % 16) == 0;
                op.resolve_only = ((x >> 44) % 8) == 0;
                ops[t].push_back(op);
            }
            ++t;
        }
    }
    std::atomic<int> ready{0};
    std::atomic<int> updates_done{0};
    std::atomic<int> callers_done{0};
    std::vector<std::string> failures(nthreads);
    std::vector<int> overlap(nthreads, 0);
    std::vector<std::thread> threads;
    for (int t = 0; t < nthreads; ++t) {
        threads.emplace_back([&, t] {
            ++ready;
            while (ready.load() < nthreads + 1) {
                std::this_thread::yield();
            }
            int seen_first = updates_done.load();
            for (auto& op : ops[t]) {
                if (!failures[t].empty()) {
                    break;
                }
                auto& me = eng.methods[op.method];
                auto& tup = tuples[op.method][op.tuple];
                std::vector<CallArg> args(tup.size());
                for (std::size_t i = 0; i < tup.size(); ++i) {
                    args[i].d = tup[i];
                    args[i].route = op.salt + int(i);
                    auto between = e1::bits(
                        s.anc[tup[i]] & s.desc[s.meths[op.method].vp[i]]);
                    args[i].s = between[op.salt % between.size()];
                }
                int want = expected[op.method][op.tuple];
                if (op.yield) {
                    std::this_thread::yield();
                }
                if (op.resolve_only) {
                    void* got = nullptr;
                    ErrorSeen e = guarded([&] { got = me.resolve(args); });
                    void* exp = want >= 0 ? me.pool[want].pf
                        : want == -1 - int(K_NONE)
                            ? me.info->not_implemented
                            : me.info->ambiguous;
                    if (e.kind != ErrorSeen::none || got != exp) {
                        failures[t] = "resolve differs from the sequential "
                                      "answer";
                    }
                    continue;
                }
                g_log.clear();
                Engine<P>::keepalive.clear();
                std::vector<const void*> md;
                std::string identity;
                ErrorSeen e = guarded([&] { me.call(args, md, identity); });
                bool good = want >= 0
                    ? e.kind == ErrorSeen::none && g_log.size() == 1 &&
                        g_log[0].def == want
                    : e.kind == ErrorSeen::resolution && g_log.empty() &&
                        e.status ==
                            (want == -1 - int(K_NONE)
                                 ? int(resolution_error::no_definition)
                                 : int(resolution_error::ambiguous));
                if (!good || !identity.empty()) {
                    failures[t] = "a call differs from the sequential "
                                  "answer (" + me.name + "[" + me.kind + "])";
                }
            }
            int seen_last = updates_done.load();
            overlap[t] = seen_last > seen_first &&
                seen_last < upd_rounds;
            ++callers_done;
        });
    }
    std::thread updater([&] {
        ++ready;
        while (ready.load() < nthreads + 1) {
            std::this_thread::yield();
        }
        for (int r = 0; r < upd_rounds; ++r) {
            // change the other policy's definitions now and then
            if (r % 3 == 2) {
                upd.clear_definitions();
                for (std::size_t m = 0; m < upd.methods.size(); ++m) {
                    upd.register_defs(m, {int(r % upd.methods[m].pool.size())});
                }
            }
            upd.update();
            ++updates_done;
            if (callers_done.load() == nthreads && r >= 1) {
                // keep some rounds overlapping, no need to run alone for long
            }
        }
    });
    for (auto& t : threads) {
        t.join();
    }
    updater.join();
    int overlapping = 0;
    for (int t = 0; t < nthreads; ++t) {
        if (!failures[t].empty()) {
            o.fail("threads: thread " + std::to_string(t) + ": " + failures[t]);
        }
        overlapping += overlap[t];
    }
    o.nontrivial = nthreads >= 2 && overlapping >= 1;
    if (overlapping) {
        o.classes.push_back("callers_overlap_with_updater");
    }
    static const char* tn[] = {"",          "",          "threads=2",
                               "threads=3", "threads=4", "threads=5",
                               "threads=6", "threads=7", "threads=8"};
    o.classes.push_back(tn[std::min(nthreads, 8)]);
    return o;
}

} // namespace e2

#endif
