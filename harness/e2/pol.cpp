// One translation unit per policy: compile with -DPOL_<name>.
#include "run.hpp"

using namespace yorel::yomm2;

namespace e2 {
using RunFn = vf::Outcome (*)(const vf::json&, const std::string&);
std::map<std::string, RunFn>& policies();
} // namespace e2

#if defined(POL_dbg)
// the stock debug policy as shipped, rebound
struct dbg : policy::debug::rebind<dbg> {};
using the_policy = dbg;
#define POL_NAME "dbg"
#elif defined(POL_rel)
struct rel : policy::release::rebind<rel> {};
using the_policy = rel;
#define POL_NAME "rel"
#elif defined(POL_dbg_ind)
struct dbg_ind
    : policy::basic_policy<
          dbg_ind, policy::std_rtti, policy::checked_perfect_hash<dbg_ind>,
          policy::vptr_vector<dbg_ind>, policy::basic_indirect_vptr<dbg_ind>,
          policy::basic_error_output<dbg_ind>,
          policy::backward_compatible_error_handler<dbg_ind>> {};
using the_policy = dbg_ind;
#define POL_NAME "dbg_ind"
#define POL_INDIRECT true
#elif defined(POL_rel_ind)
struct rel_ind
    : policy::basic_policy<
          rel_ind, policy::std_rtti, policy::fast_perfect_hash<rel_ind>,
          policy::vptr_vector<rel_ind>, policy::basic_indirect_vptr<rel_ind>,
          policy::backward_compatible_error_handler<rel_ind>> {};
using the_policy = rel_ind;
#define POL_NAME "rel_ind"
#define POL_INDIRECT true
#elif defined(POL_rel_map)
// unhashed lookup
struct rel_map : policy::release::rebind<rel_map>::replace<
                     policy::external_vptr, policy::vptr_map<rel_map>>::
                     remove<policy::type_hash> {};
using the_policy = rel_map;
#define POL_NAME "rel_map"
#elif defined(POL_dbg_inh)
// indirect by inheritance, as in tests/benchmarks.cpp: the facet is a base of
// the policy but not in basic_policy's facet list
struct dbg_inh : policy::debug::rebind<dbg_inh>,
                 policy::basic_indirect_vptr<dbg_inh> {};
using the_policy = dbg_inh;
#define POL_NAME "dbg_inh"
#define POL_INDIRECT true
#else
#error "no POL_ selected"
#endif

#ifndef POL_INDIRECT
#define POL_INDIRECT false
#endif
namespace e2 {
template<>
struct DeclaredIndirect<the_policy> : std::bool_constant<POL_INDIRECT> {};
} // namespace e2

namespace {
bool registered = [] {
    e2::policies()[POL_NAME] = &e2::run_case<the_policy>;
    return true;
}();
}
