// Engine E2: the typed universe.  Thirteen real polymorphic classes chosen so
// that every cast and adjustment path of detail.hpp occurs: single chains,
// non-virtual multiple inheritance with a second base at a non-zero offset,
// a virtual diamond.
//
//   A            X                 VR
//   |\           (second root)     /  \        (virtual inheritance)
//   B C                          VL    VM
//   |\  \                         \  /
//   D E  F       E : B, X          VZ : VL, VM
//   |    (X at non-zero offset)     |
//   G    F : C, X                  VY          (F, G and VY are `final`:
//                                               a library may treat final
//                                               classes specially)
#ifndef VERIF_E2_UNIVERSE_HPP
#define VERIF_E2_UNIVERSE_HPP

#include <boost/mp11.hpp>

#include <memory>
#include <type_traits>

namespace e2 {

namespace mp = boost::mp11;

struct A {
    virtual ~A() {
    }
    int a_pad = 1;
};
struct X {
    virtual ~X() {
    }
    long x_pad[2] = {2, 3};
};
struct B : A {
    int b_pad = 4;
};
struct C : A {
    long c_pad = 5;
};
struct D : B {
    int d_pad = 6;
};
struct E : B, X {
    int e_pad = 7;
};
struct F final : C, X {
    int f_pad = 8;
};
struct G final : D {
    int g_pad = 9;
};
struct VR {
    virtual ~VR() {
    }
    int vr_pad = 10;
};
struct VL : virtual VR {
    int vl_pad = 11;
};
struct VM : virtual VR {
    long vm_pad = 12;
};
struct VZ : VL, VM {
    int vz_pad = 13;
};
struct VY final : VZ {
    int vy_pad = 14;
};

using classes = mp::mp_list<A, B, C, D, E, F, G, X, VR, VL, VM, VZ, VY>;
constexpr int NCLS = mp::mp_size<classes>::value;

template<class T>
constexpr int index_of = mp::mp_find<classes, T>::value;

inline const char* class_name(int i) {
    static const char* n[] = {"A",  "B",  "C",  "D",  "E",  "F", "G",
                              "X",  "VR", "VL", "VM", "VZ", "VY"};
    return n[i];
}

// reflexive-transitive base relation, straight from the language
inline bool isa(int d, int b) {
    static const auto table = [] {
        std::array<std::array<bool, NCLS>, NCLS> t{};
        mp::mp_for_each<mp::mp_iota_c<NCLS>>([&](auto Di) {
            mp::mp_for_each<mp::mp_iota_c<NCLS>>([&](auto Bi) {
                using Dt = mp::mp_at_c<classes, decltype(Di)::value>;
                using Bt = mp::mp_at_c<classes, decltype(Bi)::value>;
                t[decltype(Di)::value][decltype(Bi)::value] =
                    std::is_base_of_v<Bt, Dt>;
            });
        });
        return t;
    }();
    return table[d][b];
}

// direct bases (transitive reduction of isa)
inline std::vector<std::vector<int>> direct_bases() {
    std::vector<std::vector<int>> r(NCLS);
    for (int d = 0; d < NCLS; ++d) {
        for (int b = 0; b < NCLS; ++b) {
            if (b == d || !isa(d, b)) {
                continue;
            }
            bool direct = true;
            for (int m = 0; m < NCLS; ++m) {
                if (m != d && m != b && isa(d, m) && isa(m, b)) {
                    direct = false;
                }
            }
            if (direct) {
                r[d].push_back(b);
            }
        }
    }
    return r;
}

// run f(mp_identity<T>) for the class with index i
template<class F>
void with_class(int i, F&& f) {
    mp::mp_with_index<NCLS>(std::size_t(i), [&](auto I) {
        f(mp::mp_identity<mp::mp_at_c<classes, decltype(I)::value>>());
    });
}

// One object of every class, held by shared_ptr (so every parameter kind can
// be fed from the same object).
struct Objects {
    std::shared_ptr<void> holder[NCLS];
    void* most_derived[NCLS];
    Objects() {
        mp::mp_for_each<mp::mp_iota_c<NCLS>>([&](auto I) {
            using T = mp::mp_at_c<classes, decltype(I)::value>;
            auto p = std::make_shared<T>();
            most_derived[decltype(I)::value] = p.get();
            holder[decltype(I)::value] = p;
        });
    }
    template<class T>
    std::shared_ptr<T> shared() const {
        return std::static_pointer_cast<T>(holder[index_of<T>]);
    }
    // the object of dynamic class D seen as (a base) T: the address the
    // language itself computes
    template<class T>
    T* as(int d) const {
        T* r = nullptr;
        with_class(d, [&](auto tag) {
            using Dt = typename decltype(tag)::type;
            if constexpr (std::is_base_of_v<T, Dt>) {
                r = static_cast<Dt*>(most_derived[d]); // implicit upcast
            }
        });
        return r;
    }
    template<class T>
    std::shared_ptr<T> shared_as(int d) const {
        std::shared_ptr<T> r;
        with_class(d, [&](auto tag) {
            using Dt = typename decltype(tag)::type;
            if constexpr (std::is_base_of_v<T, Dt>) {
                r = std::static_pointer_cast<Dt>(holder[d]);
            }
        });
        return r;
    }
    // address of object d seen as class t (indices)
    void* address_as(int d, int t) const {
        void* r = nullptr;
        with_class(t, [&](auto tag) {
            using T = typename decltype(tag)::type;
            r = as<T>(d);
        });
        return r;
    }
};

} // namespace e2

#endif
