// Engine E2 under ThreadSanitizer: worker for C16.
#include "engine.hpp"

namespace e2 {

thread_local std::vector<BodyRec> g_log;
thread_local int g_deliveries;

using RunFn = vf::Outcome (*)(const vf::json&, const std::string&);
std::map<std::string, RunFn>& policies() {
    static std::map<std::string, RunFn> m;
    return m;
}

static const std::map<std::string, int> kPool = {
    {"m1", 7}, {"m1x", 3}, {"m1v", 5}, {"m2", 21}, {"m2i", 21}, {"m3", 24}};

static vf::json gen_case(vf::Choice& ch, int size) {
    static const char* pols[] = {"dbg", "rel_ind", "rel_map", "rel",
                                 "dbg_ind"};
    vf::json c;
    c["policy"] = pols[ch.draw(5)];
    c["style"] = int(ch.draw(4));
    vf::json defs = vf::json::object();
    for (auto& [name, n] : kPool) {
        std::vector<int> v;
        int k = ch.draw(std::min(n, 8) + 1);
        for (int i = 0; i < k; ++i) {
            v.push_back(int(ch.draw(n)));
        }
        defs[name] = v;
    }
    c["defs"] = defs;
    int nt = 2 + ch.draw(7);
    c["threads"] = nt;
    // resolution errors observed through the deprecated call_error route
    c["legacy_handler"] = ch.chance(1, 2);
    c["ops"] = 50 + int(ch.draw(std::max(1, size * 32)));
    c["updates"] = 1 + int(ch.draw(50));
    std::vector<std::uint64_t> seeds;
    for (int i = 0; i < nt; ++i) {
        seeds.push_back(ch.draw64());
    }
    c["thread_seeds"] = seeds;
    return c;
}

static std::optional<vf::Property>
lookup(const std::string& id, const std::string& variant) {
    if (id != "C16") {
        return std::nullopt;
    }
    vf::Property p;
    p.id = id;
    p.variant = variant;
    p.generate = gen_case;
    p.run = [](const vf::json& c) {
        auto it = policies().find(c.at("policy").get<std::string>());
        vf::Outcome o = it->second(c, "C16");
        o.classes.push_back(it->first.c_str());
        return o;
    };
    p.shrinks = [](const vf::json& c) {
        std::vector<vf::json> out;
        if (c.value("threads", 2) > 2) {
            vf::json r = c;
            r["threads"] = c.value("threads", 2) - 1;
            out.push_back(r);
        }
        if (c.value("ops", 50) > 50) {
            vf::json r = c;
            r["ops"] = c.value("ops", 50) / 2;
            out.push_back(r);
        }
        return out;
    };
    return p;
}

} // namespace e2

int main(int argc, char** argv) {
    int rc = vf::worker_main(argc, argv, &e2::lookup);
    fflush(nullptr);
    _exit(rc);
}
