// Engine E2: running one case on one policy.  The case selects registration
// style and order, the class left out (if any), the live definitions per
// method name, the routes; `focus` selects which property's oracle decides.
#ifndef VERIF_E2_RUN_HPP
#define VERIF_E2_RUN_HPP

#include "engine.hpp"

namespace e2 {

using e1::DefSpec;
using e1::K_AMBIG;
using e1::K_DEF;
using e1::K_NONE;
using e1::MethSpec;
using e1::Sel;
using e1::Spec;

struct Focus {
    bool dispatch = false;  // C01: definition identity
    bool errors = false;    // C02: resolution errors
    bool vptr = false;      // C09: virtual_ptr kinds, identity, histories
    bool args = false;      // C11: argument adjustment
    bool unreg = false;     // C15: unregistered class, final misuse
    bool next = false;      // C03: next pointers written by update
};

inline Focus focus_of(const std::string& prop) {
    Focus f;
    f.dispatch = prop == "C01" || prop == "C09";
    f.errors = prop == "C02";
    f.vptr = prop == "C09";
    f.args = prop == "C11";
    f.unreg = prop == "C15";
    f.next = prop == "C03";
    return f;
}

inline Spec universe_spec() {
    Spec s;
    s.n = NCLS;
    s.bases = direct_bases();
    // spec.hpp wants topological numbering only for generation; derive()
    // needs bases before derived: compute closure directly
    s.abstract_.assign(NCLS, 0);
    s.anc.assign(NCLS, 0);
    s.desc.assign(NCLS, 0);
    for (int d = 0; d < NCLS; ++d) {
        for (int b = 0; b < NCLS; ++b) {
            if (isa(d, b)) {
                s.anc[d] |= 1ull << b;
                s.desc[b] |= 1ull << d;
            }
        }
    }
    return s;
}

template<class P>
Engine<P>& engine() {
    static Engine<P> e;
    return e;
}

template<class P>
Outcome run_case(const json& c, const std::string& prop) {
    Outcome o;
    Focus focus = focus_of(prop);
    Engine<P>& eng = engine<P>();
    using Eng = Engine<P>;

    // ---- fresh state --------------------------------------------------------
    eng.clear_definitions();
    eng.clear_probe_defs();
    eng.unregister_classes();
    eng.reset_tables();
    // (the legacy route only carries resolution errors: not for the cases
    // that provoke unknown_class / method_table errors)
    Eng::install_handler(c.value("legacy_handler", false) && !focus.unreg);
    g_log.clear();

    int style = c.value("style", 0);
    int left_out = c.value("left_out", -1);
    if (style != 2 && style != 4) {
        left_out = -1;
    }
    std::vector<int> order = c.value("order", std::vector<int>());
    for (int i = 0; i < 16; ++i) {
        if (std::find(order.begin(), order.end(), i) == order.end()) {
            order.push_back(i);
        }
    }
    // C09 histories: leaf classes registered only before the second update,
    // so that the hash changes while pointers are alive
    std::vector<int> late;
    if (focus.vptr && (style == 2 || style == 4) &&
        c.value("history", false)) {
        for (int x : c.value("late", std::vector<int>())) {
            static const int leaves[] = {index_of<G>, index_of<E>,
                                         index_of<F>, index_of<VY>};
            int k = leaves[x % 4];
            if (std::find(late.begin(), late.end(), k) == late.end()) {
                late.push_back(k);
            }
        }
    }
    auto is_late = [&](int k) {
        return std::find(late.begin(), late.end(), k) != late.end();
    };
    eng.register_classes(style, left_out, order, late);

    // live definitions, the same tuples for every kind of a method name
    Spec s = universe_spec();
    auto defs_of = [&](const std::string& name) {
        std::vector<int> v;
        if (c.contains("defs") && c["defs"].contains(name)) {
            v = c["defs"][name].get<std::vector<int>>();
        }
        return v;
    };
    bool left_out_in_defs = false;
    for (std::size_t m = 0; m < eng.methods.size(); ++m) {
        auto& me = eng.methods[m];
        MethSpec ms;
        ms.vp = me.vp;
        std::vector<int> live;
        for (int d : defs_of(me.name)) {
            d %= int(me.pool.size());
            if (std::find(live.begin(), live.end(), d) != live.end()) {
                continue;
            }
            auto& cls = me.pool[d].cls;
            if (left_out >= 0 &&
                std::find(cls.begin(), cls.end(), left_out) != cls.end()) {
                left_out_in_defs = true;
                continue; // keep the registry closed but for the class itself
            }
            if (std::any_of(cls.begin(), cls.end(), is_late)) {
                continue; // not registered yet
            }
            live.push_back(d);
            DefSpec ds;
            ds.cls = cls;
            ds.fn = d;
            ms.defs.push_back(ds);
        }
        eng.register_defs(m, live);
        s.meths.push_back(ms);
    }
    (void)left_out_in_defs;

    // the probe definitions of the classes registered in this phase
    eng.register_probe_defs(
        [&](int k) { return k != left_out && !is_late(k); });
    Probes<P>::enabled = true;

    // ---- update -------------------------------------------------------------
    bool left_out_is_base = false;
    if (left_out >= 0) {
        for (int d = 0; d < NCLS; ++d) {
            for (int b : s.bases[d]) {
                left_out_is_base |= b == left_out && d != left_out;
            }
        }
        // or a method parameter class
        for (auto& me : eng.methods) {
            left_out_is_base |=
                std::find(me.vp.begin(), me.vp.end(), left_out) != me.vp.end();
        }
    }
    ErrorSeen ue = eng.update();
    if (ue.kind == ErrorSeen::hash_search) {
        o.inconclusive = true;
        return o;
    }
    vf::Fnv h;
    h.add(c.dump());
    o.hash = h.h;
    if (left_out_is_base) {
        if constexpr (Eng::checked) {
            if (focus.unreg) {
                if (ue.kind != ErrorSeen::unknown_class ||
                    ue.type != Eng::static_id_of(left_out)) {
                    o.fail(std::string("typed-unreg-update: class ") +
                           class_name(left_out) +
                           " is a base or parameter class but not "
                           "registered; update gave " + err_name(ue));
                }
                o.nontrivial = true;
                o.classes.push_back("left_out_base_or_param_typed");
            }
        }
        return o;
    }
    if (ue.kind != ErrorSeen::none) {
        o.fail(std::string("typed-update-error: update raised ") +
               err_name(ue) + " on a closed registry");
        return o;
    }

    // ---- C03: next of every live definition, as written through the pointer
    // ---- that the real add_function registered
    if (focus.next) {
        bool two_general = false;
        for (std::size_t m = 0; m < eng.methods.size() && o.ok; ++m) {
            auto& me = eng.methods[m];
            const MethSpec& ms = s.meths[m];
            for (std::size_t d = 0; d < ms.defs.size(); ++d) {
                auto general = e1::more_general(s, ms, int(d));
                two_general |= general.size() >= 2;
                Sel sel = e1::select(s, ms, general);
                void* want = sel.kind == K_DEF
                    ? me.pool[ms.defs[sel.def].fn].pf
                    : sel.kind == K_NONE ? me.info->not_implemented
                                         : me.info->ambiguous;
                void* got = *me.pool[ms.defs[d].fn].next;
                if (got != want) {
                    o.fail("typed-next: " + me.name + "[" + me.kind +
                           "] definition " + std::to_string(ms.defs[d].fn) +
                           ": next is not what the model selects among the "
                           "strictly more general definitions");
                    break;
                }
            }
        }
        o.nontrivial = two_general;
        o.classes.push_back("typed_next");
        return o;
    }

    // ---- every legal tuple of every method ----------------------------------
    bool derived_static = false, unreg_call = false, unreg_vp_route = false;
    int route_salt = c.value("route_salt", 0);
    for (std::size_t m = 0; m < eng.methods.size() && o.ok; ++m) {
        auto& me = eng.methods[m];
        if (focus.vptr && !me.uses_virtual_ptr) {
            continue; // C09 is about the virtual_ptr kinds
        }
        const MethSpec& ms = s.meths[m];
        e1::Tuples tu(s, ms, 4000);
        std::size_t arity = ms.vp.size();
        int tuple_no = 0;
        while (tu.next() && o.ok) {
            ++tuple_no;
            const int* t = tu.t.data();
            std::vector<CallArg> args(arity);
            bool has_left_out = false;
            for (std::size_t i = 0; i < arity; ++i) {
                args[i].d = t[i];
                args[i].route = tuple_no + int(m) + route_salt + int(i);
                // static class of the intermediate pointer: a class between
                auto between = e1::bits(s.anc[t[i]] & s.desc[ms.vp[i]]);
                args[i].s = between[(tuple_no + route_salt) % between.size()];
                derived_static |= args[i].s != t[i] || t[i] != ms.vp[i];
                has_left_out |= t[i] == left_out;
            }
            if (std::any_of(tu.t.begin(), tu.t.end(), is_late)) {
                continue; // classes of the second phase
            }
            std::string where = me.name + "[" + me.kind + "](";
            for (std::size_t i = 0; i < arity; ++i) {
                where += (i ? "," : "") + std::string(class_name(t[i]));
            }
            where += ")";
            if (has_left_out) {
                if constexpr (!Eng::checked) {
                    continue; // unchecked policies promise nothing
                } else {
                    if (!focus.unreg) {
                        continue;
                    }
                    // `final` on an object of an unregistered class is not
                    // among the diagnosed routes
                    bool skip = false;
                    for (std::size_t i = 0; i < arity; ++i) {
                        int r = args[i].route;
                        if (t[i] == left_out && me.uses_virtual_ptr) {
                            bool is_vsp = me.kind.find("shared") !=
                                std::string::npos;
                            int rr = is_vsp ? r % Eng::N_VSP_ROUTES
                                            : r % Eng::N_VP_ROUTES;
                            skip |= is_vsp ? (rr == 3 || rr == 4)
                                           : (rr == 2 || rr == 3);
                            unreg_vp_route = true;
                        }
                    }
                    if (skip) {
                        continue;
                    }
                    unreg_call = true;
                    g_log.clear();
                    std::vector<const void*> md;
                    std::string identity;
                    int before = g_deliveries;
                    ErrorSeen e =
                        guarded([&] { me.call(args, md, identity); });
                    if (!g_log.empty()) {
                        o.fail("typed-unreg-body-ran: " + where +
                               " passes an object of the unregistered class "
                               "and a definition ran");
                    } else if (e.kind != ErrorSeen::unknown_class) {
                        o.fail("typed-unreg-call: " + where + " (routes " +
                               std::to_string(args[0].route) +
                               ") passes an object of the unregistered "
                               "class " + class_name(left_out) + ": got " +
                               err_name(e) + " instead of unknown_class");
                    } else if (e.type != Eng::static_id_of(left_out)) {
                        o.fail("typed-unreg-type: " + where +
                               ": unknown_class does not carry the id of " +
                               class_name(left_out));
                    } else if (g_deliveries - before != 1) {
                        o.fail("typed-unreg-deliveries: " + where);
                    }
                    continue;
                }
            }
            Sel sel = e1::dispatch(s, ms, t);
            g_log.clear();
            eng.keepalive.clear();
            std::vector<const void*> md;
            std::string identity;
            int ret = 0;
            ErrorSeen e = guarded([&] { ret = me.call(args, md, identity); });
            if (focus.vptr && !identity.empty()) {
                o.fail("typed-identity: " + where + ": " + identity);
                break;
            }
            if (sel.kind == K_DEF) {
                int want = ms.defs[sel.def].fn;
                if (focus.dispatch || focus.args) {
                    if (e.kind != ErrorSeen::none || g_log.size() != 1 ||
                        g_log[0].def != want || ret != 100 + want ||
                        g_log[0].method != (const void*)me.info) {
                        std::string got = e.kind != ErrorSeen::none
                            ? std::string("error ") + err_name(e)
                            : g_log.size() == 1
                                ? "pool definition " +
                                    std::to_string(g_log[0].def)
                                : std::to_string(g_log.size()) + " bodies";
                        o.fail("typed-dispatch: " + where + " ran " + got +
                               ", model says pool definition " +
                               std::to_string(want));
                        break;
                    }
                }
                if ((focus.args || focus.vptr) && g_log.size() == 1) {
                    // a call made through the pointer the definition
                    // received dispatches on the object's own class
                    auto& rec = g_log[0];
                    std::size_t vi = 0;
                    for (std::size_t p = 0; p < me.shape.size(); ++p) {
                        if (me.shape[p] < 0) {
                            continue;
                        }
                        if (rec.args[p].probe >= 0 &&
                            rec.args[p].probe != t[vi]) {
                            o.fail("typed-arg-redispatch: " + where +
                                   ": a call made through the virtual_ptr "
                                   "that the definition received dispatches "
                                   "as " + class_name(rec.args[p].probe) +
                                   ", the object is a " + class_name(t[vi]));
                        }
                        ++vi;
                    }
                }
                if (focus.args && g_log.size() == 1) {
                    // each virtual argument: the caller's object seen as the
                    // definition's class; each int passes through
                    auto& rec = g_log[0];
                    std::size_t vi = 0;
                    for (std::size_t p = 0; p < me.shape.size(); ++p) {
                        if (me.shape[p] < 0) {
                            if (!rec.args[p].is_int ||
                                rec.args[p].value != long(1000 + p)) {
                                o.fail("typed-arg-value: " + where +
                                       ": non-virtual argument changed");
                            }
                            continue;
                        }
                        int dcls = ms.defs[sel.def].cls[vi];
                        const void* want_addr = nullptr;
                        with_class(t[vi], [&](auto dtag) {
                            using Dt = typename decltype(dtag)::type;
                            with_class(dcls, [&](auto ttag) {
                                using Tt = typename decltype(ttag)::type;
                                if constexpr (std::is_base_of_v<Tt, Dt>) {
                                    want_addr = static_cast<Tt*>(
                                        static_cast<Dt*>(
                                            const_cast<void*>(md[vi])));
                                }
                            });
                        });
                        if (rec.args[p].addr != want_addr) {
                            o.fail("typed-arg-address: " + where +
                                   ": the definition for " +
                                   class_name(dcls) + " at position " +
                                   std::to_string(vi) +
                                   " received another address than the "
                                   "caller's object viewed as " +
                                   class_name(dcls));
                        }
                        if (me.uses_shared && rec.args[p].use_count < 2) {
                            o.fail("typed-arg-ownership: " + where +
                                   ": the shared pointer received does not "
                                   "share ownership with the caller's");
                        }
                        ++vi;
                    }
                }
            } else if (focus.errors || focus.dispatch) {
                int want = sel.kind == K_NONE
                    ? int(resolution_error::no_definition)
                    : int(resolution_error::ambiguous);
                if (e.kind != ErrorSeen::resolution || e.status != want ||
                    !g_log.empty()) {
                    o.fail("typed-error: " + where + " should report " +
                           (sel.kind == K_NONE ? "no_definition"
                                               : "ambiguous") +
                           ", got " + err_name(e) +
                           (g_log.empty() ? "" : " and a body ran"));
                    break;
                }
                if (focus.errors) {
                    if (e.arity != arity) {
                        o.fail("typed-error-arity: " + where);
                    }
                    for (std::size_t i = 0; i < arity && o.ok; ++i) {
                        if (e.types[i] != Eng::static_id_of(t[i])) {
                            o.fail("typed-error-types: " + where +
                                   ": types[" + std::to_string(i) +
                                   "] is not the dynamic type of virtual "
                                   "argument " + std::to_string(i));
                        }
                    }
                }
            }
        }
    }

    // ---- final on an object of another dynamic type (checked policies) ------
    if constexpr (Eng::checked) {
        if (focus.unreg && o.ok) {
            for (int d = 0; d < NCLS && o.ok; ++d) {
                if (d == left_out) {
                    continue;
                }
                for (int sidx : e1::bits(s.anc[d])) {
                    if (sidx == d || sidx == left_out) {
                        continue;
                    }
                    with_class(d, [&](auto dtag) {
                        using Dt = typename decltype(dtag)::type;
                        with_class(sidx, [&](auto stag) {
                            using St = typename decltype(stag)::type;
                            if constexpr (
                                std::is_base_of_v<St, Dt> &&
                                !std::is_same_v<St, Dt>) {
                                St& ref = *eng.objects.template as<St>(d);
                                ErrorSeen e = guarded([&] {
                                    auto p = virtual_ptr<St, P>::final(ref);
                                    (void)p;
                                });
                                if (e.kind != ErrorSeen::method_table ||
                                    e.type != Eng::static_id_of(d)) {
                                    o.fail(
                                        std::string("typed-final: final<") +
                                        class_name(sidx) +
                                        "> given an object of dynamic type " +
                                        class_name(d) + " reported " +
                                        err_name(e) +
                                        " instead of a method_table_error "
                                        "carrying its type");
                                }
                                // the same through the shared pointer
                                // flavour, lvalue and rvalue
                                for (int rv = 0; rv < 2 && o.ok; ++rv) {
                                    auto sp = eng.objects
                                                  .template shared_as<St>(d);
                                    ErrorSeen e2 = guarded([&] {
                                        if (rv) {
                                            auto p = virtual_shared_ptr<
                                                St, P>::final(std::move(sp));
                                            (void)p;
                                        } else {
                                            const auto& csp = sp;
                                            auto p = virtual_shared_ptr<
                                                St, P>::final(csp);
                                            (void)p;
                                        }
                                    });
                                    if (e2.kind != ErrorSeen::method_table ||
                                        e2.type != Eng::static_id_of(d)) {
                                        o.fail(
                                            std::string(
                                                "typed-final-shared: "
                                                "virtual_shared_ptr<") +
                                            class_name(sidx) +
                                            ">::final given a shared_ptr to "
                                            "an object of dynamic type " +
                                            class_name(d) + " reported " +
                                            err_name(e2) +
                                            " instead of a "
                                            "method_table_error carrying "
                                            "its type");
                                    }
                                }
                            }
                        });
                    });
                }
            }
            o.classes.push_back("final_with_other_dynamic_type");
        }
    }

    // ---- C09 history: pointers across an update -----------------------------
    bool post_update_use = false;
    if (focus.vptr && o.ok && c.value("history", false)) {
        // pointers created now
        std::vector<std::pair<int, virtual_ptr<A, P>>> pa;
        std::vector<std::pair<int, virtual_ptr<VR, P>>> pv;
        for (int d : e1::bits(s.desc[index_of<A>])) {
            if (is_late(d)) {
                continue;
            }
            CallArg a{d, d + route_salt, -1};
            std::string identity;
            pa.push_back({d, eng.template make_vp<A>(a, identity)});
        }
        for (int d : e1::bits(s.desc[index_of<VR>])) {
            if (is_late(d)) {
                continue;
            }
            CallArg a{d, d + route_salt + 1, -1};
            std::string identity;
            pv.push_back({d, eng.template make_vp<VR>(a, identity)});
        }
        // change the registry so that the tables move and change: other
        // definitions for m1 / m1v, and padding definitions elsewhere
        std::vector<int> d2 = c.value("defs2_m1", std::vector<int>());
        std::vector<int> d2v = c.value("defs2_m1v", std::vector<int>());
        eng.clear_definitions();
        eng.register_late(late);
        eng.register_probe_defs([&](int k) { return k != left_out; });
        if (!late.empty()) {
            o.classes.push_back("classes_added_before_second_update");
        }
        Spec s2 = universe_spec();
        for (std::size_t m = 0; m < eng.methods.size(); ++m) {
            auto& me = eng.methods[m];
            MethSpec ms;
            ms.vp = me.vp;
            std::vector<int> live;
            const std::vector<int>* src = nullptr;
            std::vector<int> all;
            if (me.name == "m1") {
                src = &d2;
            } else if (me.name == "m1v") {
                src = &d2v;
            } else if (c.value("padding", 0) % 2 == 1) {
                for (std::size_t k = 0; k < me.pool.size(); ++k) {
                    all.push_back(int(k));
                }
                src = &all;
            } else {
                src = &all; // none
            }
            for (int d : *src) {
                d %= int(me.pool.size());
                if (std::find(live.begin(), live.end(), d) == live.end()) {
                    live.push_back(d);
                    DefSpec ds;
                    ds.cls = me.pool[d].cls;
                    ds.fn = d;
                    ms.defs.push_back(ds);
                }
            }
            eng.register_defs(m, live);
            s2.meths.push_back(ms);
        }
        ErrorSeen ue2 = eng.update();
        if (ue2.kind != ErrorSeen::none) {
            if (ue2.kind == ErrorSeen::hash_search) {
                o.inconclusive = true;
            } else {
                o.fail(std::string("typed-update-error: second update "
                                   "raised ") + err_name(ue2));
            }
            return o;
        }
        // find the m1[vp] and m1v[vp] entries
        auto use = [&](auto& ptrs, const char* name, auto call) {
            std::size_t mi = 0;
            for (std::size_t m = 0; m < eng.methods.size(); ++m) {
                if (eng.methods[m].name == name &&
                    eng.methods[m].kind == "virtual_ptr") {
                    mi = m;
                }
            }
            for (auto& entry : ptrs) {
                int d = entry.first;
                auto& p = entry.second;
                int t[1] = {d};
                Sel sel = e1::dispatch(s2, s2.meths[mi], t);
                if constexpr (Eng::indirect) {
                    // an old pointer remains valid: it sees the class's
                    // current table
                    const std::uintptr_t* current = nullptr;
                    with_class(d, [&](auto tag) {
                        current = P::template static_vptr<
                            typename decltype(tag)::type>;
                    });
                    if (p._vptr() != current) {
                        o.fail(std::string("typed-indirect: a virtual_ptr to "
                                           "a ") + class_name(d) +
                               " created before update does not see the "
                               "class's current v-table");
                        return;
                    }
                    post_update_use = true;
                    g_log.clear();
                    ErrorSeen e = guarded([&] { call(p); });
                    bool good = sel.kind == K_DEF
                        ? e.kind == ErrorSeen::none && g_log.size() == 1 &&
                            g_log[0].def == s2.meths[mi].defs[sel.def].fn
                        : e.kind == ErrorSeen::resolution && g_log.empty();
                    if (!good) {
                        o.fail(std::string("typed-indirect-dispatch: a call "
                                           "through a virtual_ptr to a ") +
                               class_name(d) + " created before update "
                               "does not dispatch like a fresh one (" +
                               name + ")");
                        return;
                    }
                }
            }
        };
        use(pa, "m1", [](virtual_ptr<A, P> p) {
            return method_t<P, n_m1, k_vp>::fn(p);
        });
        if (o.ok) {
            use(pv, "m1v", [](virtual_ptr<VR, P> p) {
                return method_t<P, n_m1v, k_vp>::fn(p);
            });
        }
        // fresh pointers after the update dispatch per the new model
        for (std::size_t m = 0; m < eng.methods.size() && o.ok; ++m) {
            auto& me = eng.methods[m];
            if (!me.uses_virtual_ptr || me.vp.size() != 1) {
                continue;
            }
            for (int d : e1::bits(s2.desc[me.vp[0]])) {
                int t[1] = {d};
                Sel sel = e1::dispatch(s2, s2.meths[m], t);
                std::vector<CallArg> args = {{d, d + route_salt, -1}};
                std::vector<const void*> md;
                std::string identity;
                g_log.clear();
                ErrorSeen e = guarded([&] { me.call(args, md, identity); });
                bool good = sel.kind == K_DEF
                    ? e.kind == ErrorSeen::none && g_log.size() == 1 &&
                        g_log[0].def == s2.meths[m].defs[sel.def].fn
                    : e.kind == ErrorSeen::resolution && g_log.empty();
                if (!good) {
                    o.fail("typed-dispatch-after-update: " + me.name + "[" +
                           me.kind + "](" + class_name(d) + ")");
                    break;
                }
            }
        }
        o.classes.push_back("history_with_second_update");
    }

    if (focus.vptr) {
        o.nontrivial = derived_static || post_update_use;
        if (post_update_use) {
            o.classes.push_back("pre_update_pointer_used_after_update");
        }
    } else if (focus.unreg) {
        o.nontrivial = unreg_call;
        if (unreg_call) {
            o.classes.push_back("unregistered_dynamic_class_typed");
        }
        if (unreg_vp_route) {
            o.classes.push_back("unregistered_through_virtual_ptr_route");
        }
    } else {
        o.nontrivial = true;
    }
    o.classes.push_back(style == 0       ? "style_all_in_one"
                            : style == 1 ? "style_per_edge"
                            : style == 2 ? "style_per_class"
                            : style == 4 ? "style_per_class_type_list"
                                         : "style_redundant_mix");
    return o;
}

} // namespace e2

#endif
