// Engine E4 (C05): the type-id hash facets and the v-table pointer vector,
// driven directly the way install_gv drives them (publish_vptrs over a range
// of classes), with histories of successive calls and search-budget faults.
#include <yorel/yomm2/core.hpp>

#include "../common/worker.hpp"

#include <fcntl.h>
#include <signal.h>
#include <sys/wait.h>
#include <unistd.h>

using namespace yorel::yomm2;
using vf::Choice;
using vf::json;
using vf::Outcome;

struct Thrown {
    error_type ev;
};

template<class P>
struct with_handler {
    static void install() {
        P::error = [](const error_type& ev) {
            ++deliveries;
            throw Thrown{ev};
        };
    }
    static inline int deliveries = 0;
};

static void sigabrt_probe(int) {
    _exit(42);
}

struct dummy_rtti : policy::rtti {
    template<typename T>
    static type_id static_type() {
        return 0;
    }
    template<typename T>
    static type_id dynamic_type(const T&) {
        return 0;
    }
};

struct h_checked
    : policy::basic_policy<
          h_checked, dummy_rtti, policy::checked_perfect_hash<h_checked>,
          policy::vptr_vector<h_checked>, policy::vectored_error<h_checked>> {};
struct h_fast
    : policy::basic_policy<
          h_fast, dummy_rtti, policy::fast_perfect_hash<h_fast>,
          policy::vptr_vector<h_fast>, policy::vectored_error<h_fast>> {};
struct h_checked_ind
    : policy::basic_policy<
          h_checked_ind, dummy_rtti,
          policy::checked_perfect_hash<h_checked_ind>,
          policy::vptr_vector<h_checked_ind>,
          policy::basic_indirect_vptr<h_checked_ind>,
          policy::vectored_error<h_checked_ind>> {};

// what install_gv passes to publish_vptrs
struct Cls {
    std::vector<type_id> ids;
    std::uintptr_t* table = nullptr;   // the class's v-table
    std::uintptr_t** static_vptr = nullptr;
    auto type_id_begin() const {
        return ids.begin();
    }
    auto type_id_end() const {
        return ids.end();
    }
    const std::uintptr_t* vptr() const {
        return *static_vptr;
    }
    const std::uintptr_t* const* indirect_vptr() const {
        return static_vptr;
    }
};

static type_id family_id(const std::string& fam, std::uint64_t k,
                         std::uint64_t aux) {
    if (fam == "clustered") {
        return 0x55d4a2a00000ull + aux * 0x1000 + k * 16; // typeinfo-like
    }
    if (fam == "clustered8") {
        return 0x7f31c0de0000ull + k * 8;
    }
    if (fam == "stride") {
        return k << (aux % 21);
    }
    if (fam == "highbits") {
        return (k << 44) | 0x5a0;
    }
    if (fam == "lowbits" || fam == "small") {
        return k;
    }
    return k; // random64: k is the value
}

template<class P>
static void reset_policy() {
    P::hash_mult = 0;
    P::hash_shift = 0;
    P::hash_length = 0;
    P::hash_min = 0;
    P::hash_max = 0;
    P::vptrs.clear();
    if constexpr (policy::has_facet<P, policy::runtime_checks>) {
        P::control.clear();
    }
    if constexpr (policy::has_facet<P, policy::indirect_vptr>) {
        P::indirect_vptrs.clear();
    }
#ifdef YOMM2_VERIF_HOOKS
    policy::fast_perfect_hash<P>::verif_attempt_budget = 100000;
#endif
    with_handler<P>::install();
}

template<class P>
static Outcome run_policy(const json& j) {
    Outcome o;
    reset_policy<P>();
    constexpr bool checked = policy::has_facet<P, policy::runtime_checks>;
    constexpr bool indirect = policy::has_facet<P, policy::indirect_vptr>;
    vf::Fnv h;
    h.add(j.at("policy").get<std::string>());
    bool shrink_step = false, collider_found = false, exhausted = false;
    bool returning_probe = false;
    std::size_t prev_size = 0;
    std::size_t max_ids = 0;
    std::set<type_id> ever_registered; // over the whole history
    int step = 0;
    for (auto& js : j.at("steps")) {
        ++step;
        std::string at = " (step " + std::to_string(step) + ")";
        // the registered set of this step
        std::vector<Cls> classes;
        std::vector<std::unique_ptr<std::uintptr_t[]>> tables;
        std::vector<std::unique_ptr<std::uintptr_t*>> svptrs;
        std::set<type_id> registered;
        for (auto& jc : js.at("classes")) {
            Cls c;
            for (auto& jid : jc) {
                type_id id = jid.get<std::uint64_t>();
                if (id == invalid_type || !registered.insert(id).second) {
                    continue; // ids are distinct and valid
                }
                c.ids.push_back(id);
                h.add(id);
            }
            if (c.ids.empty()) {
                continue;
            }
            tables.push_back(std::make_unique<std::uintptr_t[]>(1));
            c.table = tables.back().get();
            svptrs.push_back(std::make_unique<std::uintptr_t*>(c.table));
            c.static_vptr = svptrs.back().get();
            classes.push_back(std::move(c));
        }
        if (registered.size() < prev_size) {
            shrink_step = true;
        }
        ever_registered.insert(registered.begin(), registered.end());
        prev_size = registered.size();
        max_ids = std::max(max_ids, registered.size());
        std::size_t budget = js.value("budget", 100000);
        h.add(budget);
#ifdef YOMM2_VERIF_HOOKS
        policy::fast_perfect_hash<P>::verif_attempt_budget = budget;
#else
        budget = 100000;
#endif
        int before = with_handler<P>::deliveries;
        bool returned = false, search_failed = false;
        try {
            P::publish_vptrs(classes.begin(), classes.end());
            returned = true;
        } catch (const Thrown& t) {
            if (std::get_if<hash_search_error>(&t.ev)) {
                search_failed = true;
            } else {
                o.fail("hash-error: update raised an error other than "
                       "hash_search_error" + at);
                break;
            }
        }
        int delivered = with_handler<P>::deliveries - before;
        if (returned && delivered != 0) {
            o.fail("hash-both: an error was reported and the hash was "
                   "installed" + at);
            break;
        }
        if (search_failed) {
            if (delivered != 1) {
                o.fail("hash-deliveries: search failure delivered " +
                       std::to_string(delivered) + " errors" + at);
                break;
            }
            exhausted = true;
            o.classes.push_back("search_budget_exhausted");
            continue; // nothing installed: next step
        }
        // ---- installed: perfect on the registered ids --------------------
        std::map<type_id, type_id> owner; // index -> id
        for (auto& c : classes) {
            for (auto id : c.ids) {
                type_id index = 0;
                try {
                    index = P::hash_type_id(id);
                } catch (const Thrown&) {
                    o.fail("hash-rejects-registered: registered id " +
                           std::to_string(id) +
                           " is reported as an unknown class" + at);
                    break;
                }
                if (index >= P::hash_length) {
                    o.fail("hash-range: id " + std::to_string(id) +
                           " hashes to " + std::to_string(index) +
                           " >= hash_length " +
                           std::to_string(P::hash_length) + at);
                    break;
                }
                if (index >= P::vptrs.size()) {
                    o.fail("hash-range-vptrs: id " + std::to_string(id) +
                           " hashes to " + std::to_string(index) +
                           " outside the v-table pointer vector of size " +
                           std::to_string(P::vptrs.size()) + at);
                    break;
                }
                auto ins = owner.insert({index, id});
                if (!ins.second) {
                    o.fail("hash-collision: ids " + std::to_string(id) +
                           " and " + std::to_string(ins.first->second) +
                           " share index " + std::to_string(index) + at);
                    break;
                }
                if (P::vptrs[index] != c.table) {
                    o.fail("hash-vptr: the slot of id " + std::to_string(id) +
                           " does not hold its class's v-table pointer" + at);
                    break;
                }
                if constexpr (indirect) {
                    if (P::indirect_vptrs.size() <= index ||
                        P::indirect_vptrs[index] != c.static_vptr) {
                        o.fail("hash-indirect: the indirect slot of id " +
                               std::to_string(id) +
                               " does not hold the address of its class's "
                               "v-table pointer" + at);
                        break;
                    }
                }
                if constexpr (checked) {
                    if (P::control.size() <= index ||
                        P::control[index] != id) {
                        o.fail("hash-control: control entry of id " +
                               std::to_string(id) + " is wrong" + at);
                        break;
                    }
                }
            }
            if (!o.ok) {
                break;
            }
        }
        if (!o.ok) {
            break;
        }
        // ---- checked variant: every unregistered id is rejected ----------
        if constexpr (checked) {
            std::vector<type_id> probes;
            for (auto& jp : js.at("probes")) {
                probes.push_back(jp.get<std::uint64_t>());
            }
            // neighbours and single bit flips of registered ids
            int k = 0;
            for (auto id : registered) {
                if (++k > 24) {
                    break;
                }
                probes.push_back(id + 1);
                probes.push_back(id - 1);
                probes.push_back(id ^ (1ull << (k % 64)));
                probes.push_back(id + 8);
                probes.push_back(id << 1);
            }
            probes.push_back(0);
            // ids registered by an earlier update and removed since (an
            // unloaded library): stale entries must not survive
            bool removed_probe = false;
            for (auto id : ever_registered) {
                if (!registered.count(id)) {
                    probes.push_back(id);
                    removed_probe = true;
                }
            }
            if (removed_probe) {
                o.classes.push_back("probe_of_id_removed_by_later_update");
            }
            // ids constructed to land on an occupied bucket, or past
            // hash_length: brute force on the installed parameters
            std::uint64_t x = js.value("collider_seed", std::uint64_t(1));
            int found = 0;
            for (int tries = 0; tries < 20000 && found < 6; ++tries) {
                x += 0x9E3779B97F4A7C15ull;
                auto index =
                    policy::fast_perfect_hash<P>::hash_type_id(x);
                if (!registered.count(x) &&
                    (owner.count(index) || index >= P::hash_length)) {
                    probes.push_back(x);
                    ++found;
                    collider_found = true;
                }
            }
            for (auto x : probes) {
                if (registered.count(x) || x == invalid_type) {
                    continue;
                }
                int b = with_handler<P>::deliveries;
                bool rejected = false;
                type_id reported = 0;
                try {
                    P::hash_type_id(x);
                } catch (const Thrown& t) {
                    if (auto e = std::get_if<unknown_class_error>(&t.ev)) {
                        rejected = true;
                        reported = e->type;
                    }
                }
                if (!rejected) {
                    o.fail("hash-accepts-unregistered: id " +
                           std::to_string(x) +
                           " was not registered but is mapped to index " +
                           std::to_string(
                               policy::fast_perfect_hash<P>::hash_type_id(x)) +
                           at);
                    break;
                }
                if (reported != x || with_handler<P>::deliveries - b != 1) {
                    o.fail("hash-unknown-type: unknown_class_error does not "
                           "carry the offending id" + at);
                    break;
                }
            }
            // a handler that *returns*: the id must still not be mapped -
            // the library aborts rather than continue with an index (in a
            // forked child; a few probes per step)
            if (o.ok && js.value("returning_handler", false)) {
                int forked = 0;
                for (auto x : probes) {
                    if (registered.count(x) || x == invalid_type) {
                        continue;
                    }
                    if (++forked > 2) {
                        break;
                    }
                    fflush(nullptr);
                    pid_t pid = fork();
                    if (pid == 0) {
                        int devnull = open("/dev/null", O_WRONLY);
                        if (devnull >= 0) {
                            dup2(devnull, 2);
                        }
                        signal(SIGABRT, sigabrt_probe);
                        P::error = [](const error_type&) {}; // returns
                        try {
                            P::hash_type_id(x);
                        } catch (...) {
                            _exit(44);
                        }
                        _exit(45);
                    }
                    int status = 0;
                    waitpid(pid, &status, 0);
                    int code = WIFEXITED(status) ? WEXITSTATUS(status) : -1;
                    if (code != 42) {
                        o.fail("hash-returning-handler: id " +
                               std::to_string(x) +
                               " was not registered; the error handler "
                               "returned and " +
                               (code == 45
                                    ? std::string("the id was mapped to index " +
                                          std::to_string(policy::fast_perfect_hash<
                                              P>::hash_type_id(x)))
                                    : "the child ended with status " +
                                        std::to_string(status)) +
                               " instead of the program aborting" + at);
                        break;
                    }
                    returning_probe = true;
                }
            }
        }
    }
    o.hash = h.h;
    o.nontrivial =
        max_ids >= 2 && (collider_found || shrink_step || exhausted);
    if (shrink_step) {
        o.classes.push_back("history_with_shrinking_set");
    }
    if (collider_found) {
        o.classes.push_back("colliding_unregistered_probe");
    }
    if (returning_probe) {
        o.classes.push_back("unregistered_probe_with_returning_handler");
    }
    if (max_ids >= 100) {
        o.classes.push_back("100+_ids");
    }
    o.classes.push_back(j.at("family").get<std::string>().c_str() ==
                                std::string("")
                            ? "family?"
                            : "has_family");
    return o;
}

static Outcome run_hash(const json& j) {
    std::string p = j.at("policy");
    if (p == "fast") {
        return run_policy<h_fast>(j);
    }
    if (p == "checked_indirect") {
        return run_policy<h_checked_ind>(j);
    }
    return run_policy<h_checked>(j);
}

static json gen_hash(Choice& ch, int size) {
    static const char* pols[] = {"checked", "checked", "fast",
                                 "checked_indirect"};
    static const char* fams[] = {"clustered", "clustered8", "stride",
                                 "highbits",  "lowbits",    "small",
                                 "random64",  "union"};
    json j;
    j["policy"] = pols[ch.draw(4)];
    std::string fam = fams[ch.draw(8)];
    j["family"] = fam;
    int max_ids = atoi(getenv("VERIF_E4_MAX_IDS") ? getenv("VERIF_E4_MAX_IDS")
                                                  : "64");
    int nsteps = 1 + ch.draw(6);
    std::uint64_t aux = ch.draw(64);
    // a pool of ids of the family; each step registers a subset
    int pool_n = ch.draw(std::max(2, std::min(max_ids, 2 + size * max_ids / 60)) + 1);
    std::vector<std::uint64_t> pool;
    for (int i = 0; i < pool_n; ++i) {
        std::string f = fam;
        if (fam == "union") {
            f = fams[ch.draw(7)];
        }
        std::uint64_t k;
        if (f == "random64") {
            k = ch.draw64();
        } else if (f == "small") {
            k = ch.draw(1024);
        } else if (f == "lowbits") {
            k = ch.draw(0x10000);
        } else {
            k = 1 + ch.draw(4096);
        }
        pool.push_back(family_id(f, k, aux));
    }
    j["steps"] = json::array();
    std::size_t live = pool.size();
    for (int s = 0; s < nsteps; ++s) {
        json js;
        // growing and shrinking sets
        if (s > 0) {
            live = ch.draw(pool.size() + 1);
        }
        js["classes"] = json::array();
        std::size_t i = 0;
        while (i < live) {
            json jc = json::array();
            jc.push_back(pool[i++]);
            if (i < live && ch.chance(1, 10)) {
                jc.push_back(pool[i++]); // a class with two ids
            }
            js["classes"].push_back(jc);
        }
        static const std::uint64_t budgets[] = {100000, 100000, 100000, 100000,
                                                1,      2,      5};
        js["budget"] = budgets[ch.draw(7)];
        js["collider_seed"] = ch.draw64();
        js["returning_handler"] = ch.chance(1, 10);
        js["probes"] = json::array();
        int np = ch.draw(6);
        for (int p = 0; p < np; ++p) {
            // unregistered members of the same family
            js["probes"].push_back(
                family_id(fam == "union" ? "clustered" : fam,
                          fam == "random64" ? ch.draw64() : 5000 + ch.draw(4096),
                          aux));
        }
        j["steps"].push_back(js);
    }
    return j;
}

static std::optional<vf::Property>
lookup(const std::string& id, const std::string& variant) {
    if (id != "C05") {
        return std::nullopt;
    }
    vf::Property p;
    p.id = id;
    p.variant = variant;
    p.generate = gen_hash;
    p.run = run_hash;
    p.shrinks = [](const json& j) {
        std::vector<json> out;
        auto& steps = j.at("steps");
        for (std::size_t i = 0; i < steps.size() && steps.size() > 1; ++i) {
            json r = j;
            r["steps"].erase(i);
            out.push_back(r);
        }
        for (std::size_t i = 0; i < steps.size(); ++i) {
            auto& cl = steps[i].at("classes");
            // halves first, then single classes
            if (cl.size() > 4) {
                json r = j;
                r["steps"][i]["classes"].erase(
                    r["steps"][i]["classes"].begin(),
                    r["steps"][i]["classes"].begin() + cl.size() / 2);
                out.push_back(r);
                json q = j;
                q["steps"][i]["classes"].erase(
                    q["steps"][i]["classes"].begin() + cl.size() / 2,
                    q["steps"][i]["classes"].end());
                out.push_back(q);
            }
            for (std::size_t k = 0; k < cl.size() && cl.size() <= 24; ++k) {
                json r = j;
                r["steps"][i]["classes"].erase(k);
                out.push_back(r);
            }
            if (steps[i].value("budget", 100000) != 100000) {
                json r = j;
                r["steps"][i]["budget"] = 100000;
                out.push_back(r);
            }
            if (steps[i].value("returning_handler", false)) {
                json r = j;
                r["steps"][i]["returning_handler"] = false;
                out.push_back(r);
            }
            if (!steps[i].at("probes").empty()) {
                json r = j;
                r["steps"][i]["probes"] = json::array();
                out.push_back(r);
            }
        }
        return out;
    };
    return p;
}

#ifdef VERIF_FUZZ
extern "C" int LLVMFuzzerTestOneInput(const std::uint8_t* data,
                                      std::size_t size) {
    static std::vector<vf::Property> table = {*lookup("C05", "")};
    static bool once = [] {
        std::atexit([] {
            fflush(nullptr);
            _exit(0);
        });
        return true;
    }();
    (void)once;
    return vf::fuzz_one(data, size, table, "e4");
}
#else
int main(int argc, char** argv) {
    int rc = vf::worker_main(argc, argv, &lookup);
    fflush(nullptr);
    _exit(rc);
}
#endif
