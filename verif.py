#!/usr/bin/env python3
"""Driver for the yomm2 property checks (python3 stdlib only).

  verif.py setup                      build every engine (warms the cache)
  verif.py check <id> --tier quick|thorough
  verif.py replay <file>              re-run one saved case
  verif.py build <engine>

Checks always build against /repo/include as it is now: object files are
cached under /verif/build keyed by the content of every file under
/repo/include, the harness sources they depend on and the flags.
"""
import array
import concurrent.futures as cf
import glob
import hashlib
import json
import os
import shutil
import subprocess
import sys
import time

ROOT = os.path.dirname(os.path.abspath(__file__))
REPO = os.environ.get("VERIF_REPO", "/repo")
INC = os.path.join(REPO, "include")
BUILD = os.path.join(ROOT, "build")
HARNESS = os.path.join(ROOT, "harness")
NCPU = int(os.environ.get("VERIF_JOBS", str(os.cpu_count() or 4)))
GUARD = "YOMM2_VERIF_HOOKS"

CXX = "clang++"
BASE_FLAGS = ["-std=c++17", "-g", "-O1", "-fno-omit-frame-pointer",
              "-D" + GUARD, "-I" + INC, "-Wno-deprecated-declarations"]
SAN = ["-fsanitize=address,undefined", "-fno-sanitize-recover=undefined"]

E1_CFGS = ["chk_vec", "fast_vec", "nohash_vec", "map", "chk_vec_ind",
           "fast_vec_ind", "nohash_vec_ind", "bc_err", "deferred_chk",
           "deferred_nohash", "proj_chk", "proj_map", "proj_chk_ind"]


def engines():
    e = {}
    e1_hdr = ["e1/pool.hpp"]
    e["e1"] = {
        "tus": [{"src": "e1/cfg.cpp", "name": "cfg_" + c,
                 "flags": SAN + ["-DCFG_" + c],
                 "deps": e1_hdr + ["e1/cfgs.inc"]} for c in E1_CFGS] +
               [{"src": "e1/%s.cpp" % n, "name": "e1_" + n, "flags": SAN,
                 "deps": ["e1/*.hpp", "common/*.hpp"]}
                for n in ["main", "props_core", "props_meta", "props_hist", "props_rtti", "props_gen"]],
        "link": SAN + ["-lrapidcheck"],
    }
    FZ = ["-fsanitize=fuzzer-no-link,address,undefined",
          "-fno-sanitize-recover=undefined"]
    e["e1f"] = {
        "tus": [{"src": "e1/cfg.cpp", "name": "fz_cfg_" + c,
                 "flags": FZ + ["-DCFG_" + c],
                 "deps": e1_hdr + ["e1/cfgs.inc"]}
                for c in ["chk_vec", "map", "nohash_vec", "fast_vec"]] +
               [{"src": "e1/%s.cpp" % n, "name": "fz_" + n, "flags": FZ,
                 "deps": ["e1/*.hpp", "common/*.hpp"]}
                for n in ["fuzz_main", "props_core", "props_meta"]],
        "link": ["-fsanitize=fuzzer,address,undefined"] + ["-lrapidcheck"],
    }
    e2_pols = ["dbg", "rel", "dbg_ind", "rel_ind", "rel_map", "dbg_inh"]
    e2_deps = ["e2/*.hpp", "e1/spec.hpp", "common/*.hpp"]
    e["e2"] = {
        "tus": [{"src": "e2/pol.cpp", "name": "e2_pol_" + p_,
                 "flags": SAN + ["-DPOL_" + p_], "deps": e2_deps}
                for p_ in e2_pols] +
               [{"src": "e2/main.cpp", "name": "e2_main", "flags": SAN,
                 "deps": e2_deps}],
        "link": SAN + ["-lrapidcheck"],
    }
    TSAN = ["-fsanitize=thread"]
    e["e2t"] = {
        "tus": [{"src": "e2/tpol.cpp", "name": "e2t_pol_" + p_,
                 "flags": TSAN + ["-DPOL_" + p_], "deps": e2_deps}
                for p_ in ["dbg", "rel_ind", "rel_map", "rel", "dbg_ind"]] +
               [{"src": "e2/tmain.cpp", "name": "e2t_main", "flags": TSAN,
                 "deps": e2_deps}],
        "link": TSAN + ["-lrapidcheck"],
    }
    for name in ["e4", "e5", "e6"]:
        e[name] = {
            "tus": [{"src": name + "/main.cpp", "name": name + "_main",
                     "flags": SAN, "deps": ["common/*.hpp"]}],
            "link": SAN + ["-lrapidcheck"],
        }
        # the same engine as a libFuzzer target (bytes -> same generators)
        e[name + "f"] = {
            "tus": [{"src": name + "/main.cpp", "name": name + "_fuzz",
                     "flags": FZ + ["-DVERIF_FUZZ"],
                     "deps": ["common/*.hpp"]}],
            "link": ["-fsanitize=fuzzer,address,undefined", "-lrapidcheck"],
        }
    return e


# --------------------------------------------------------------------------
# build cache

_repo_hash = None


def repo_hash():
    global _repo_hash
    if _repo_hash is None:
        h = hashlib.sha256()
        for path in sorted(glob.glob(os.path.join(INC, "**", "*"),
                                     recursive=True)):
            if os.path.isfile(path):
                h.update(os.path.relpath(path, INC).encode())
                with open(path, "rb") as f:
                    h.update(hashlib.sha256(f.read()).digest())
        _repo_hash = h.hexdigest()
    return _repo_hash


def files_hash(patterns):
    h = hashlib.sha256()
    for pat in patterns:
        for path in sorted(glob.glob(os.path.join(HARNESS, pat))):
            h.update(path.encode())
            with open(path, "rb") as f:
                h.update(f.read())
    return h.hexdigest()


def tu_key(tu, extra=()):
    h = hashlib.sha256()
    h.update(repo_hash().encode())
    h.update(files_hash([tu["src"]] + tu["deps"]).encode())
    h.update(" ".join([tu.get("cxx", CXX)] + BASE_FLAGS + tu["flags"] +
                      list(extra)).encode())
    return h.hexdigest()[:24]


def compile_tu(tu):
    key = tu_key(tu)
    objdir = os.path.join(BUILD, "obj")
    os.makedirs(objdir, exist_ok=True)
    obj = os.path.join(objdir, "%s-%s.o" % (tu["name"], key))
    if os.path.exists(obj):
        return obj, 0.0, ""
    t0 = time.time()
    tmp = obj + ".tmp%d" % os.getpid()
    cmd = [tu.get("cxx", CXX)] + BASE_FLAGS + tu["flags"] + \
        ["-I" + HARNESS, "-c", os.path.join(HARNESS, tu["src"]), "-o", tmp]
    p = subprocess.run(cmd, capture_output=True, text=True)
    if p.returncode != 0:
        if os.path.exists(tmp):
            os.remove(tmp)
        return None, time.time() - t0, p.stderr[-6000:]
    os.replace(tmp, obj)
    return obj, time.time() - t0, ""


def build(engine, quiet=False):
    spec = engines()[engine]
    keys = [tu_key(tu) for tu in spec["tus"]]
    bkey = hashlib.sha256((" ".join(keys) + " ".join(spec["link"])).encode()
                          ).hexdigest()[:24]
    bindir = os.path.join(BUILD, "bin")
    os.makedirs(bindir, exist_ok=True)
    exe = os.path.join(bindir, "%s-%s" % (engine, bkey))
    if os.path.exists(exe):
        return exe
    t0 = time.time()
    objs = []
    with cf.ThreadPoolExecutor(max_workers=NCPU) as ex:
        for tu, (obj, dt, err) in zip(spec["tus"],
                                      ex.map(compile_tu, spec["tus"])):
            if obj is None:
                sys.stderr.write("BUILD FAILED %s/%s\n%s\n" %
                                 (engine, tu["name"], err))
                raise SystemExit(2)
            objs.append(obj)
    tmp = exe + ".tmp%d" % os.getpid()
    p = subprocess.run([spec.get("cxx", CXX)] + objs + spec["link"] +
                       ["-o", tmp], capture_output=True, text=True)
    if p.returncode != 0:
        sys.stderr.write("LINK FAILED %s\n%s\n" % (engine, p.stderr[-4000:]))
        raise SystemExit(2)
    os.replace(tmp, exe)
    if not quiet:
        sys.stderr.write("built %s in %.0fs\n" % (engine, time.time() - t0))
    prune(engine, keep_objs=set(objs), keep_exe=exe)
    return exe


def prune(engine, keep_objs, keep_exe):
    """Disk is limited: keep the four most recent generations, and never
    remove anything younger than two hours (another check, possibly on
    another tree, may be using it)."""
    now = time.time()

    def old_enough(path):
        try:
            return now - os.path.getmtime(path) > 7200
        except OSError:
            return False
    bindir = os.path.join(BUILD, "bin")
    exes = sorted(glob.glob(os.path.join(bindir, engine + "-*")),
                  key=os.path.getmtime)
    for old in exes[:-4]:
        if old != keep_exe and old_enough(old):
            try:
                os.remove(old)
            except OSError:
                pass
    objdir = os.path.join(BUILD, "obj")
    objs = sorted(glob.glob(os.path.join(objdir, "*.o")),
                  key=os.path.getmtime)
    by_name = {}
    for o in objs:
        by_name.setdefault(os.path.basename(o).rsplit("-", 1)[0], []).append(o)
    for name, lst in by_name.items():
        for old in lst[:-4]:
            if old not in keep_objs and old_enough(old):
                try:
                    os.remove(old)
                except OSError:
                    pass


# --------------------------------------------------------------------------
# property table

def splitmix(*parts):
    h = hashlib.sha256(("/".join(str(p) for p in parts)).encode()).digest()
    v = int.from_bytes(h[:8], "little") & 0x7fffffffffffffff
    return v or 1


# per property: list of "jobs"; each job = engine, variant(s), cases per worker
PROPS = {}


def prop(pid, **kw):
    PROPS[pid] = kw


prop("C01", engine="e1", rule=(
    "random registries (inheritance DAG x methods x definitions) x policy "
    "configuration, every legal argument tuple dispatched through resolve() "
    "and operator() and compared with the brute-force reference model; "
    "non-trivial = some called tuple has >= 2 applicable definitions; "
    "distinct = canonical hash of (registry, configuration)"),
    quick=dict(also=[dict(engine="e2", workers=4, cases=2000)], cases=20000, size=60), thorough=dict(fuzz=dict(engine="e1f", workers=4, runs=300000), also=[dict(engine="e2", workers=4, cases=20000)], cases=200000, size=100))
prop("C03", engine="e1", program="c03", rule=(
    "random registries; after update the next pointer written for every "
    "definition is compared with the model's select() over strictly more "
    "general definitions; non-trivial = some definition has >= 2 strictly "
    "more general definitions; one definition is then unregistered and "
    "update runs again. Second generator (typed universe): next as written "
    "through the pointer given to the library's add_function (each function "
    "also registered a second time without a pointer). Third generator "
    "(programs): a class DAG registered in arbitrary order, a method, and "
    "definitions in one of eight styles (define_method, in a method "
    "container, define_method_inline, add_definition of a container with "
    "use_next<> / its own static next / method::next<>, add_function with "
    "a next pointer, the same instantiated twice); every definition "
    "records itself and calls next; the chains D > next(D) > ... and the "
    "final error of every tuple are compared with the model, before and "
    "after a second update"),
    quick=dict(also=[dict(engine="e2", workers=3, cases=1500)], cases=20000, size=60), thorough=dict(also=[dict(engine="e2", workers=3, cases=20000)], cases=300000, size=100))
prop("C04", engine="e1", rule=(
    "lattice-biased random registries, canonical and arbitrary legal "
    "presentations, classes flagged abstract at random and used as dynamic "
    "classes all the same (objects under construction); slot injectivity per class from installed slots, "
    "bounds-checked re-implementation of the table walk, real resolve under "
    "ASan; non-trivial = a class with >= 2 direct bases exists and >= 2 "
    "(method, parameter) pairs share a class"),
    quick=dict(cases=30000, size=60), thorough=dict(fuzz=dict(engine="e1f", workers=4, runs=300000), cases=200000, size=100))
prop("C02", engine="e1", program="c02", rule=(
    "random registries biased to gaps and ambiguities (duplicated "
    "definitions included), all signature shapes, error facets vectored / "
    "deprecated call_error / throw_error; every unresolvable tuple (up to 6 "
    "per method) is called: no body runs, one resolution error with the "
    "model's status, arity = number of virtual parameters, types = dynamic "
    "ids of the virtual arguments in order, a later call still dispatches; "
    "for one case in eight the handler returns in a forked child which must "
    "die by abort; non-trivial = an erroring method with a non-virtual "
    "parameter or arity >= 2. Third generator (programs): a DAG of real "
    "classes, one method of arity 1..3 with int / std::string parameters "
    "between virtual ones of kinds T&, T*, shared_ptr, virtual_ptr, few "
    "definitions; the error is observed through default_policy::error, "
    "set_error_handler, the deprecated set_method_call_error_handler, or a "
    "throw_error policy, compiled with or without NDEBUG; every tuple is "
    "checked against the model (status, arity, typeid of the dynamic "
    "classes, one delivery, no body, a later call still works) and one "
    "erroring call is repeated in a forked child with a returning handler"),
    quick=dict(also=[dict(engine="e2", workers=4, cases=1500)], cases=12000, size=60), thorough=dict(also=[dict(engine="e2", workers=4, cases=20000)], cases=100000, size=100))
prop("C05", engine="e4", rule=(
    "histories of 1..6 successive publish_vptrs calls (what update does) on "
    "growing and shrinking sets of 0..64 ids (thorough: 0..400) from "
    "families clustered pointers / regular strides 2^0..2^20 / high bits "
    "only / low bits only / small integers / random 64-bit / unions, some "
    "classes with two ids, attempt budget drawn from {100000, 1, 2, 5} "
    "through the hook; oracle: either a hash_search_error is delivered "
    "exactly once and nothing else, or every registered id maps to a "
    "distinct index < hash_length and < vptrs.size() holding its class's "
    "v-table pointer (indirect: its address; checked: control entry); "
    "checked variant: neighbours, bit flips, unregistered family members, "
    "0, and ids brute-forced to land on an occupied bucket or past "
    "hash_length are all rejected with unknown_class_error carrying the id, "
    "as is every id an earlier step registered and a later one removed; in "
    "one step of ten two probes are repeated in a forked child whose handler "
    "returns: the child must abort, not obtain an index; "
    "non-trivial = >= 2 ids and (a colliding unregistered probe was found "
    "or the history shrinks or the budget was exhausted)"),
    technique="property-based testing (rapidcheck) over id-set histories "
              "with fault injection of the search budget; invariant oracle; "
              "thorough tier adds coverage-guided fuzzing (libFuzzer) of "
              "the same generator and oracle",
    quick=dict(cases=1500, size=60),
    thorough=dict(cases=2500, size=100, env={"VERIF_E4_MAX_IDS": "400"},
                  fuzz=dict(engine="e4f", workers=4, runs=15000)))
prop("C06", engine="e1", rule=(
    "random registries x 2..5 random permutations of class-record, method "
    "and definition registration orders (all permutations for one case in "
    "six, drawn with <= 3 classes, <= 2 methods, <= 3 definitions each; "
    "one sampled case in three presents the graph through split / partial "
    "/ redundant records per class, whose order is permuted too); "
    "metamorphic oracle: dispatch of every tuple and next of every "
    "definition equal across orders; non-trivial = a non-identity "
    "permutation and a tuple with >= 3 applicable definitions"),
    quick=dict(cases=30000, size=60), thorough=dict(cases=150000, size=100))
prop("C07", engine="e1", program="c07", rule=(
    "stateful: a universe registry and 3..40 operations load/unload class, "
    "method, definition (real catalog push_back/remove of the registration "
    "records, cascading to dependants so every update sees a closed "
    "registry) and update; after every update all tuples over the live "
    "classes dispatch per the model of the live registrations, next and "
    "report likewise, and an update with no change alters nothing; eager, "
    "indirect and deferred ids, with and without hash; non-trivial = an "
    "update after a removal that changes some tuple's result. Second "
    "generator (real shared libraries): a host and 2..3 generated shared "
    "objects contributing definitions and new leaf classes, a generated "
    "script of dlopen / dlclose / update steps; after each update every "
    "tuple of the classes then known is called and the transcript compared "
    "with a brute-force model of the modules loaded at that point"),
    quick=dict(cases=6000, size=60,
               also=[dict(engine="e5", variants=["catalogs"], workers=2,
                          cases=3000)]),
    thorough=dict(cases=60000, size=100,
                  also=[dict(engine="e5", variants=["catalogs"], workers=2,
                             cases=100000)]))
prop("C08", engine="e1", rule=(
    "one random graph registered canonically and through a random legal "
    "presentation (1..3 records per class, any superset of the direct bases "
    "within the transitive bases, with or without the class itself, "
    "duplicates, any order); dispatch and next equal between the two and "
    "equal to the model, acceptance relation = derived classes, slot "
    "injectivity and bounds, report; non-trivial = the presentation omits "
    "an indirect base of a class with >= 2 direct bases"),
    quick=dict(cases=30000, size=60), thorough=dict(cases=150000, size=100))
prop("C09", engine="e2", rule=(
    "typed universe (13 real classes: chains, second base at non-zero "
    "offset, virtual diamond) under 5 policies (stock debug and release "
    "rebound, checked and fast hash with indirect v-table pointers, "
    "unhashed map), registration style and order, live definitions per "
    "method drawn at random; every legal tuple of every method with "
    "virtual_ptr / virtual_shared_ptr parameters is called with pointers "
    "built through a rotating menu of routes (from base reference, exact "
    "type then converting copy from lvalue / const lvalue / rvalue, final, "
    "final_virtual_ptr, same-type copy and move; shared_ptr const lvalue / "
    "lvalue / rvalue, make_virtual_shared, final) and must run the "
    "definition the model selects for the pointee's class; get, * and -> "
    "(and shared ownership) give back the object; half the cases continue "
    "with other definitions, a second update, pre-update pointers (indirect "
    "policies) and fresh ones; non-trivial = a pointer whose static class "
    "differs from the pointee's, or a pre-update pointer used after update"),
    technique="property-based testing (rapidcheck) on real C++ types with "
              "a reference-model oracle and route metamorphism",
    quick=dict(cases=4000, size=60), thorough=dict(cases=40000, size=100))
prop("C10", engine="e1", program="c10", rule=(
    "one abstract registry instantiated under 3..4 RTTI flavours (identity "
    "custom ids with checked hash / map / no hash, many-to-one projection "
    "with 1..3 alias ids per class spread over records, base lists, method "
    "and definition parameter lists and object ids, deferred ids resolved "
    "by update), 1..3 updates each; model oracle per flavour plus pairwise "
    "equality of every tuple's dispatch and every next; under projection "
    "every registered alias id is used as the dynamic id; non-trivial = "
    "arity >= 2 or a class with >= 2 alias ids or >= 2 updates. Second "
    "generator (programs): a random DAG of real C++ classes, one method of "
    "arity 1..2 whose virtual parameters are drawn from T&, const T&, T*, "
    "const T*, shared_ptr, const shared_ptr&, shared_ptr<const T>, "
    "virtual_ptr, virtual_ptr<const T>, emitted under "
    "three policies in one program - std_rtti, pointer ids (minimal_rtti "
    "statics, which tell const T from T, dynamic id in a field), deferred "
    "small-integer ids without type hash - compiled with ASan+UBSan; every "
    "tuple must give the model's result under each flavour, before and "
    "after a second update"),
    quick=dict(cases=3000, size=60), thorough=dict(cases=40000, size=100))
prop("C11", engine="e2", program="c11", rule=(
    "two generators. (1) generated programs: a case is a combination of "
    "virtual parameter kind (T&, const T&, T&&, T*, const T*, shared_ptr, "
    "const shared_ptr&, virtual_ptr, virtual_shared_ptr, const "
    "virtual_shared_ptr&) x inheritance shape between the method's and the "
    "definition's class (same, first base, second base at non-zero offset, "
    "virtual base, two levels, virtual diamond) x position of the virtual "
    "parameter (arity 1..3) x non-virtual categories (int, tracked by value "
    "from lvalue / rvalue, T&, const T&, T&&, move-only unique_ptr&& and by "
    "value) x return category x policy (debug, release, or a custom-rtti "
    "policy with minimal_rtti static ids and a dynamic id field) x for T* "
    "whether the definition is a member function registered with "
    "add_member_function; ~24-40 cases per translation unit, "
    "compiled against /repo/include with ASan+UBSan and run; the caller "
    "computes the expected address with static_cast, checks ownership, "
    "values, addresses of reference arguments, and copy / move counts at "
    "body entry. (2) typed universe: every legal tuple of 22 methods in 7 "
    "parameter kinds over 13 real classes, each definition must receive "
    "static_cast<DefClass*>(caller's object). non-trivial = the expected "
    "address differs from the most-derived object's, or a tracked or "
    "move-only argument is involved"),
    technique="generated-program testing (seeded combination sampling, "
              "compile and run, oracle computed by the language in the "
              "caller) plus property-based testing on a typed universe",
    quick=dict(cases=600, size=60, workers=6),
    thorough=dict(cases=20000, size=100, workers=8))
prop("C20", engine=None, program="c20", rule=(
    "generated programs: 2 or 3 type lists of 1..513 classes (products on "
    "both sides of the 512-element split: 506, 512, 513, 529, 576, 3-list "
    "512 and 576, ...), a definition template with a pseudo-random subset "
    "of combinations marked not_defined (probability 0 / 0.1 / 0.5 / 0.9 / "
    "1), in five styles (primary defined + not_defined specialisations; "
    "primary not_defined + defined specialisations; per-position traits "
    "deriving from not_defined, publicly or privately; two methods of the "
    "same signature whose definitions inherit fn from a method-independent "
    "base); static_asserts on the size and order of product<> and whole-"
    "list static_asserts of apply_product, transform_product and product on "
    "small lists whose elements are arbitrary types (classes, references, "
    "pointers, fundamental types, template instantiations, template_<>, "
    "nested and empty type lists), plus a second method whose definition "
    "template takes a list of tags as one argument; at run time the method's catalog must "
    "hold exactly one definition per defined combination, every defined "
    "combination called with its exact classes must run its own definition "
    "and every other combination must be reported as not implemented; a "
    "compile error fails the case; non-trivial = some combinations defined "
    "and some not, or a product larger than 512"),
    technique="generated-program testing (seeded sampling of list sizes and "
              "not_defined subsets, compile and run, oracle inside the "
              "program)",
    quick=dict(cases=0, size=1), thorough=dict(cases=0, size=1))
prop("C12", engine="e1", program="c13", rule=(
    "random registries, arity 1..4; round trip: the text written by "
    "generator::write_static_offsets is parsed and compared position by "
    "position with the slots and strides update installed; differential: "
    "twin methods compiled with run-time fillable static_offsets are filled "
    "with the parsed numbers and must dispatch every tuple like the model "
    "with the consistency check silent, then each number is perturbed in "
    "turn and the checked policy must raise static_slot_error / "
    "static_stride_error before any body runs (once per case also in a "
    "forked child whose handler returns, which must abort); non-trivial = a method of "
    "arity >= 3 (first arity where grouped and interleaved layouts differ); "
    "plus generated two-stage programs (see C13) compiled with the generated "
    "offsets under checked and unchecked policies"),
    quick=dict(cases=8000, size=60), thorough=dict(cases=100000, size=100))
prop("C13", engine="e1", program="c13", rule=(
    "random lattice-biased registries with type_info ids, gaps and "
    "ambiguities; the text written by generator::encode_dispatch_data is "
    "parsed (declared sizes non-negative, initializers fit), rebuilt in "
    "exact-size heap blocks (union and dtbls separately) and decoded by the "
    "real decode_dispatch_data under ASan in a state emulating a fresh "
    "process; afterwards every tuple dispatches as the model says and as "
    "before encoding; non-trivial = a class whose v-table does not start at "
    "slot 0 or has no entries, and a multi-method; half of the registries "
    "have several records per class, configurations with direct and "
    "indirect v-table pointers; a hash search failure inside the decoder is "
    "a failure. Compile tier: generated "
    "two-stage programs (random class DAG, possibly in namespaces, methods "
    "of arity 1..3, debug or release policy): stage A updates, records every "
    "tuple's outcome and writes forward declarations + static offsets + "
    "encoded tables (some classes registered a second time; generated "
    "offsets included ahead of everything or after the method "
    "declarations); stage B is the same registry compiled with the "
    "generated files by g++ and by clang++, decodes instead of updating and "
    "must reproduce the record"),
    quick=dict(cases=4000, size=60), thorough=dict(cases=30000, size=100))
prop("C14", engine="e1", rule=(
    "stateful over 2..3 policies (rebind / replace / remove compositions: "
    "checked hash, fast hash, map, no hash, indirect) sharing class ids, "
    "each with its own methods: interleaved load/unload definition or "
    "class, update, set-handler, create-virtual_ptr, provoke-error "
    "operations addressed to one policy; after every operation the snapshot "
    "of every other settled policy (dispatch of every tuple, next, "
    "dispatch_data address/size/content, hash parameters and control "
    "table, v-table lookups, live virtual_ptrs, which handler a provoked "
    "error reaches) must be unchanged; one error_call in three adds a forked "
    "probe: the policy is put back on the library's default handlers, every "
    "other policy and the default policy get marker handlers, and an "
    "unresolvable call must end in abort() without entering any of them; "
    "non-trivial = an update of B between "
    "two observations of A. Plus the catalogs engine (see C18): real "
    "class_declaration (pack and type-list forms) / method / definition "
    "objects of one policy constructed and destroyed at random while the "
    "catalogs of a second policy and of the default policy must not change"),
    quick=dict(cases=8000, size=60,
               also=[dict(engine="e5", variants=["catalogs"], workers=2,
                          cases=8000)]),
    thorough=dict(cases=30000, size=100,
                  also=[dict(engine="e5", variants=["catalogs"], workers=2,
                             cases=100000)]))
prop("C15", engine="e1", program="c15", rule=(
    "random registry with one class left out, used as a listed base, a "
    "method parameter, a definition parameter (update must report "
    "unknown_class with its id) or as the dynamic class of a virtual "
    "argument at any position through a reference or a virtual_ptr built "
    "from a base reference (the call must report unknown_class with its id, "
    "exactly once, no body runs; once per case also in a forked child whose "
    "handler returns, which must abort; in a third of the dynamic cases the "
    "class was registered for a first update and its records removed before "
    "a second one); typed universe: per-class records "
    "(pack or type-list form) with one class omitted, every route, and "
    "final / virtual_shared_ptr::final given another dynamic type; checked "
    "configurations only. Third generator (programs of two translation "
    "units, g++): an unregistered leaf class in an unnamed namespace of the "
    "second unit - optionally with a different, registered class of the same "
    "name in the first unit - used as a definition's parameter class (update "
    "must report it) or as the dynamic class of an argument by reference or "
    "through a virtual_ptr (the call must report it, once, no body); "
    "non-trivial "
    "= left out as method/definition parameter, or dynamic at position >= 2 "
    "or through a virtual_ptr"),
    quick=dict(also=[dict(engine="e2", workers=4, cases=1500)], cases=10000, size=60), thorough=dict(also=[dict(engine="e2", workers=4, cases=20000)], cases=100000, size=100))
prop("C18", engine="e5", variants=["list", "catalogs"], rule=(
    "(a) static_list<Node> directly: pool of 1..6 zero-initialised nodes, "
    "sequences of push_back (node not in list), remove (node in list: "
    "first, middle, last, only), clear, compared after every step with a "
    "std::vector model (iteration order const and non-const, size, empty, "
    "removed nodes have null links); every valid sequence up to length 8 "
    "(thorough 9) on a 3-node pool is enumerated exhaustively, longer ones "
    "on up to 6 nodes at random; (b) the policy catalogs through real "
    "class_declaration / method / definition_info / add_function objects "
    "constructed and destroyed in zeroed storage; non-trivial = a removal "
    "of a middle or last element followed by a push"),
    technique="model-based stateful property testing (rapidcheck) plus "
              "bounded exhaustive enumeration of operation sequences; "
              "thorough tier adds coverage-guided fuzzing (libFuzzer)",
    quick=dict(cases=40000, size=60,
               extra=[["--exhaustive", "8", "--nodes", "3"]]),
    thorough=dict(cases=200000, size=100,
                  fuzz=dict(engine="e5f", workers=4, runs=300000),
                  extra=[["--exhaustive", "9", "--nodes", "3"],
                         ["--exhaustive", "7", "--nodes", "4"]]))
prop("C19", engine="e6", variants=["names", "types"], rule=(
    "(a) sets of 0..8 qualified names over a tiny alphabet (a b ab abc B "
    "a1, depth 0..4) with shared and diverging prefixes and identifiers "
    "that are string prefixes of one another (pairs where one name is a "
    "scope prefix of the other are outside the domain); (b) type "
    "descriptions from a grammar of cv-qualifiers, pointers, references, "
    "arrays, function types, std:: / yorel:: / user templates with nested "
    "arguments, non-type template arguments as a demangler prints them "
    "(3ul, -1, true, (char)65), noexcept function types, all fundamental "
    "types incl. decltype(nullptr) and __int128, user classes in "
    "namespaces; the "
    "output is parsed: only namespace/class/} lines, balanced, and the set "
    "of fully qualified classes declared equals the requested set (a) / "
    "the ground-truth set of user classes (b), each once; non-trivial = "
    "(a) >= 2 names, a nested one and two with related first components, "
    "(b) a user class together with cv-qualifiers, templates or multi-word "
    "fundamental types"),
    technique="grammar-based property testing (rapidcheck) with a parser "
              "of the emitted declarations as oracle; thorough tier adds "
              "coverage-guided fuzzing (libFuzzer) of the same grammar",
    quick=dict(cases=30000, size=60),
    thorough=dict(cases=200000, size=100,
                  fuzz=dict(engine="e6f", workers=4, runs=150000)))
prop("C16", engine="e2t", tsan=True, rule=(
    "typed universe built with -fsanitize=thread: a random registry is "
    "updated, the sequential answer of every tuple of 22 methods is "
    "tabulated, then 2..8 threads each run 50..2000 generated operations "
    "(calls by reference, pointer, shared_ptr, virtual_ptr and "
    "virtual_shared_ptr built through every route, resolve, erroring calls "
    "with a throwing handler, generated yield points) behind a start "
    "barrier while another thread runs update 1..50 times on an unrelated "
    "policy whose definitions also change; oracle: zero ThreadSanitizer "
    "reports (halt_on_error) and every result equals the sequential table; "
    "non-trivial = >= 2 caller threads of which at least one observed the "
    "updater progressing while it ran"),
    technique="randomised concurrent stress under ThreadSanitizer "
              "(happens-before race detection) with a sequential-table "
              "oracle",
    note="Trusted: ThreadSanitizer, the harness. The harness does not own "
         "the scheduler: a result divergence that needs a specific "
         "interleaving without a data race would only be found by luck.",
    quick=dict(cases=400, size=60), thorough=dict(cases=2500, size=100))
prop("C17", engine="e1", rule=(
    "random registries with random abstract flags (roots and middles "
    "biased abstract), gappy and deliberately ambiguous (duplicated) "
    "definition sets; the four report flags and the cell count are compared "
    "with the model, cells also with the number of cells built; "
    "non-trivial = at least one abstract class and a NONE or AMBIGUOUS "
    "tuple"),
    quick=dict(cases=30000, size=60), thorough=dict(cases=300000, size=100))


# --------------------------------------------------------------------------
# running

def run_worker(args):
    exe, wargs, env, log = args
    t0 = time.time()
    with open(log, "w") as lf:
        p = subprocess.run([exe] + wargs, env=env, stdout=lf,
                           stderr=subprocess.STDOUT)
    return p.returncode, time.time() - t0


def worker_env(seed, cases, size):
    env = dict(os.environ)
    env["RC_PARAMS"] = "seed=%d max_success=%d max_size=%d" % (
        seed, cases, size)
    env["ASAN_OPTIONS"] = "detect_leaks=0:abort_on_error=0:" \
        "allocator_may_return_null=1"
    if cases > 100:
        # long searches: ASan remembers one stack per allocation and per
        # deallocation; with the default depth (30) the depot of distinct
        # stacks grows by ~100 KB per case (20 GB for a 200000-case worker)
        # and the run is 2.5 times slower.  Replays keep the full depth.
        env["ASAN_OPTIONS"] += ":malloc_context_size=3:quarantine_size_mb=64"
    env["UBSAN_OPTIONS"] = "print_stacktrace=1"
    env["TSAN_OPTIONS"] = "halt_on_error=1:exitcode=66:report_signal_unsafe=0"
    return env


def run_fuzz(fz, pid, tier, seed, scratch, failures):
    """libFuzzer campaign over the same generators and oracles (bytes ->
    structure-aware decode).  -runs bounds it; slow-unit / timeout / oom
    artifacts are load noise and are ignored."""
    exe = build(fz["engine"])
    n = fz.get("workers", 4)
    procs = []
    for w in range(n):
        corpus = os.path.join(scratch, "corpus%d" % w)
        os.makedirs(corpus, exist_ok=True)
        with open(os.path.join(corpus, "seed0"), "wb") as f:
            f.write(bytes([w, 7, 3, 1, 4, 1, 5, 9, 2, 6] * 8))
        env = worker_env(1, 1000, 1)
        env["VERIF_FUZZ_OUT"] = scratch
        fseed = splitmix(seed, pid, tier, "fuzz", w) % 2000000000 + 1
        cmd = [exe, "-runs=%d" % fz["runs"], "-seed=%d" % fseed,
               "-max_len=2048", "-print_final_stats=1", "-timeout=60",
               "-rss_limit_mb=4096",
               "-artifact_prefix=%s/fz%d-" % (scratch, w), corpus]
        log = open(os.path.join(scratch, "fz%d.log" % w), "w")
        procs.append((subprocess.Popen(cmd, env=env, stdout=log,
                                       stderr=subprocess.STDOUT), log, w))
    execs = 0
    for p, log, w in procs:
        p.wait()
        log.close()
        with open(os.path.join(scratch, "fz%d.log" % w)) as f:
            for line in f:
                if "stat::number_of_executed_units" in line:
                    execs += int(line.split()[-1])
    # semantic failures wrote their own replay file
    for path in glob.glob(os.path.join(scratch, "fuzz-failure-*.json")):
        with open(path) as f:
            failures.append(json.load(f))
    # crashes inside the library: decode the artifact into a case
    for path in glob.glob(os.path.join(scratch, "fz*-crash-*")):
        dump = path + ".case.json"
        env = worker_env(1, 1, 1)
        env["VERIF_FUZZ_DUMP"] = dump
        subprocess.run([exe, path], env=env, stdout=subprocess.DEVNULL,
                       stderr=subprocess.DEVNULL)
        if os.path.exists(dump):
            with open(dump) as f:
                fl = json.load(f)
            already = any(f2.get("case") == fl["case"] for f2 in failures)
            if not already:
                failures.append(fl)
    return {"engine": fz["engine"], "workers": n,
            "runs_per_worker": fz["runs"], "executions": execs}


def load_known_findings():
    path = os.path.join(ROOT, "known_findings.json")
    if not os.path.exists(path):
        return []
    with open(path) as f:
        return json.load(f).get("findings", [])


def replay_file(exe, path, fork=True):
    env = worker_env(1, 1, 1)
    env["VERIF_SHRINK_VERBOSE"] = "1"  # keep the sanitizer report
    p = subprocess.run([exe, "--replay", path] + (["--fork"] if fork else []),
                       env=env, capture_output=True, text=True)
    out = p.stdout.strip().splitlines()
    failed = p.returncode != 0
    msg = ""
    for line in out:
        if line.startswith("FAIL"):
            msg = line[5:]
    if failed:
        for line in p.stderr.splitlines():
            if line.startswith("SUMMARY:") or "runtime error:" in line or \
                    "Assertion" in line:
                msg += " | " + line.strip()[:300]
                break
    return failed, msg


PROGRAM_ENGINES = {"c11": "proggen.c11", "c20": "proggen.c20",
                   "c13": "proggen.c13", "c07": "proggen.c07",
                   "c03": "proggen.c03", "c10": "proggen.c10",
                   "c02": "proggen.c02", "c15": "proggen.c15"}


def program_module(name):
    import importlib
    sys.path.insert(0, ROOT)
    return importlib.import_module(PROGRAM_ENGINES[name])


def replay_program(j, scratch=None):
    mod = program_module(j["engine"])
    scratch = scratch or os.path.join(BUILD, "scratch",
                                      "replay-%d" % os.getpid())
    os.makedirs(scratch, exist_ok=True)
    status, msg = mod.replay(j["case"], scratch, INC)
    return status, msg


def shrink_program_failure(fl, scratch):
    """confirm (3 replays) and greedily simplify a failing program case"""
    mod = program_module(fl["engine"])
    for _ in range(2):
        status, msg = mod.replay(fl["case"], scratch, INC)
        if status != "FAIL":
            return None
    fl = dict(fl, message=msg)
    cls = msg.split(":")[0]
    budget = 12
    progress = True
    while progress and budget > 0:
        progress = False
        for cand in mod.shrinks(fl["case"]):
            budget -= 1
            if budget < 0:
                break
            status, m = mod.replay(cand, scratch, INC)
            if status == "FAIL" and m.split(":")[0] == cls:
                fl = dict(fl, case=cand, message=m)
                progress = True
                break
    return fl


def engine_for_file(path):
    with open(path) as f:
        j = json.load(f)
    return j.get("engine") or PROPS[j["property"]]["engine"], j


def exe_for_file(path, default_engine):
    with open(path) as f:
        j = json.load(f)
    return build(j.get("engine") or default_engine)


NO_SAVE = False


def check(pid, tier, seed):
    t_start = time.time()
    cfg = PROPS[pid]
    exe = build(cfg["engine"]) if cfg.get("engine") else None
    tcfg = cfg[tier]
    scratch = os.path.join(BUILD, "scratch", "%s-%d" % (pid, os.getpid()))
    os.makedirs(scratch, exist_ok=True)
    violations = []     # (replay path, message)
    known_lines = []
    findings = [f for f in load_known_findings() if f["property"] == pid]
    open_findings = [f for f in findings if f.get("status") == "open"]

    # 1. replay tier: saved regressions and finding witnesses
    replayed = 0
    replay_known = 0
    witness_of = {}
    for f in findings:
        if f.get("witness"):
            witness_of[os.path.join(ROOT, f["witness"])] = f
    for path in sorted(glob.glob(os.path.join(ROOT, "replays", pid,
                                              "*.json"))):
        replayed += 1
        with open(path) as f:
            pj = json.load(f)
        program_known = False
        if pj.get("engine") in PROGRAM_ENGINES:
            status, msg = replay_program(pj, scratch)
            failed = status != "PASS"
            program_known = status == "KNOWN"
        else:
            failed, msg = replay_file(exe_for_file(path, cfg["engine"]),
                                      path)
        f = witness_of.get(path)
        if f is not None and f.get("status") == "open":
            if pj.get("engine") in PROGRAM_ENGINES and failed and \
                    not program_known:
                violations.append((path, msg))  # fails in another way
            elif failed:
                known_lines.append("KNOWN-FINDING: property=%s %s" %
                                   (pid, f["summary"]))
            continue
        if failed and program_known:
            # a saved program case that shows nothing but an open, listed
            # finding (everything else about it was checked and holds): the
            # same disposition as in the generated search, where such cases
            # are counted as excluded
            replay_known += 1
            continue
        if failed:
            violations.append((path, msg))

    # 2. generated search
    groups = []
    if exe:
        groups = [dict(engine=cfg["engine"], exe=exe,
                       variants=cfg.get("variants") or
                       [cfg.get("variant", "")],
                       workers=tcfg.get("workers", NCPU),
                       cases=tcfg["cases"], size=tcfg["size"],
                       env=tcfg.get("env", {}))]
    for g in tcfg.get("also", []):
        groups.append(dict(engine=g["engine"], exe=build(g["engine"]),
                           variants=g.get("variants", [""]),
                           workers=g.get("workers", 4), cases=g["cases"],
                           size=g.get("size", tcfg["size"]),
                           env=g.get("env", {})))
    if len(groups) > 1:
        # share the cores
        groups[0]["workers"] = max(
            2, groups[0]["workers"] - sum(g["workers"] for g in groups[1:]))
    jobs = []
    job_engine = []
    for g in groups:
        for k in range(g["workers"]):
            w = len(jobs)
            out = os.path.join(scratch, "w%d.json" % w)
            hashes = os.path.join(scratch, "w%d.hashes" % w)
            wargs = ["--prop", pid, "--out", out, "--hashes", hashes,
                     "--max-size", str(g["size"])]
            variant = g["variants"][k % len(g["variants"])]
            if variant:
                wargs += ["--variant", variant]
            wseed = splitmix(seed, pid, tier, g["engine"], k)
            env = worker_env(wseed, g["cases"], g["size"])
            env.update(g["env"])
            jobs.append((g["exe"], wargs, env,
                         os.path.join(scratch, "w%d.log" % w)))
            job_engine.append(g["engine"])
    nworkers = len(jobs)
    # extra jobs (bounded exhaustive enumerations): same output format
    nextra = 0
    for extra in tcfg.get("extra", []):
        w = nworkers + nextra
        nextra += 1
        out = os.path.join(scratch, "w%d.json" % w)
        jobs.append((exe, list(extra) + ["--out", out],
                     worker_env(1, 1, 1),
                     os.path.join(scratch, "w%d.log" % w)))
    with cf.ThreadPoolExecutor(max_workers=NCPU) as ex:
        results = list(ex.map(run_worker, jobs))
    fuzz_stats = None
    fuzz_failures = []
    if tcfg.get("fuzz"):
        fuzz_stats = run_fuzz(tcfg["fuzz"], pid, tier, seed, scratch,
                              fuzz_failures)
    program_result = None
    if cfg.get("program"):
        mod = program_module(cfg["program"])

        def pool_map(fn, items):
            with cf.ThreadPoolExecutor(max_workers=NCPU) as ex2:
                return list(ex2.map(fn, items))
        import inspect
        kw = {"prop": pid} if "prop" in inspect.signature(
            mod.check).parameters else {}
        program_result = mod.check(tier, seed, scratch, INC, NCPU, pool_map,
                                   **kw)

    total = dict(evaluations=0, nontrivial=0, inconclusive=0)
    classes, excluded, samples, failures = {}, {}, [], list(fuzz_failures)
    all_hashes = set()
    extra_distinct = 0
    crashed = []
    for w, (rc, dt) in enumerate(results):
        out = os.path.join(scratch, "w%d.json" % w)
        if not os.path.exists(out):
            crashed.append(w)
            continue
        with open(out) as f:
            r = json.load(f)
        for k in total:
            total[k] += r.get(k, 0)
        if w >= nworkers:
            extra_distinct += r.get("distinct_nontrivial", 0)
        for k, v in r.get("classes", {}).items():
            classes[k] = classes.get(k, 0) + v
        for k, v in r.get("excluded", {}).items():
            excluded[k] = excluded.get(k, 0) + v
        samples += r.get("samples", [])[:1]
        for fl in r.get("failures", []):
            fl["engine"] = job_engine[w] if w < len(job_engine) \
                else cfg["engine"]
            failures.append(fl)
        hp = os.path.join(scratch, "w%d.hashes" % w)
        if os.path.exists(hp):
            a = array.array("Q")
            with open(hp, "rb") as f:
                a.frombytes(f.read())
            all_hashes.update(a)

    # 3. workers that died (sanitizer abort, signal): re-run with case
    #    tracing to recover the case, then shrink it structurally
    if program_result is not None:
        r = program_result
        for k in total:
            total[k] += r.get(k, 0)
        for k, v in r.get("classes", {}).items():
            classes[k] = classes.get(k, 0) + v
        for k, v in r.get("excluded", {}).items():
            excluded[k] = excluded.get(k, 0) + v
        samples = r.get("samples", [])[:3] + samples
        failures += r.get("failures", [])
        all_hashes.update(r.get("hashes", ()))
    exhaustive_parts = []
    for w in range(nworkers, nworkers + nextra):
        out = os.path.join(scratch, "w%d.json" % w)
        if os.path.exists(out):
            with open(out) as f:
                r = json.load(f)
            exhaustive_parts.append({"what": r.get("variant"),
                                     "sequences": r.get("evaluations"),
                                     "complete": r.get("exhaustive", False)})
    def rerun_traced(w):
        exe_, wargs, env, log = jobs[w]
        trace = os.path.join(scratch, "w%d.trace.json" % w)
        return subprocess.run([exe_] + wargs + ["--trace", trace], env=env,
                              stdout=subprocess.DEVNULL,
                              stderr=subprocess.DEVNULL).returncode
    died = [w for w in crashed if w < nworkers]
    rerun_rc = {}
    if died:
        with cf.ThreadPoolExecutor(max_workers=min(len(died), NCPU)) as ex3:
            rerun_rc = dict(zip(died, ex3.map(rerun_traced, died)))
    not_reproduced = 0
    for w in crashed:
        if w >= nworkers:
            failures.append({"property": pid, "case": None,
                             "message": "extra job %d died" % w})
            continue
        exe_, wargs, env, log = jobs[w]
        trace = os.path.join(scratch, "w%d.trace.json" % w)
        if rerun_rc.get(w) == 0:
            # the same worker with the same seed now runs to the end without
            # a failure: it was killed from outside (memory pressure, a
            # signal), which says nothing about the property
            not_reproduced += 1
            total["inconclusive"] += 1
            continue
        if os.path.exists(trace) and os.path.getsize(trace) > 0:
            with open(trace) as f:
                case = json.load(f)
            variant = ""
            if "--variant" in wargs:
                variant = wargs[wargs.index("--variant") + 1]
            failures.append({"property": pid, "variant": variant,
                             "engine": job_engine[w],
                             "case": case, "message": "crash", "crash": True})
        else:
            tail = ""
            try:
                with open(log) as lf:
                    tail = lf.read()[-1500:]
            except OSError:
                pass
            failures.append({"property": pid, "case": None,
                             "message": "worker %d died and its case could "
                                        "not be recovered" % w,
                             "log_tail": tail})

    # 4. confirm + shrink + save
    unconfirmed = 0
    os.makedirs(os.path.join(ROOT, "replays", pid), exist_ok=True)
    seen_msgs = set()
    for fl in failures:
        if fl.get("case") is None:
            # the case could not be recovered: keep the evidence we have
            digest = hashlib.sha256(fl["message"].encode()).hexdigest()[:12]
            path = os.path.join(
                BUILD, "scratch") if NO_SAVE else os.path.join(
                ROOT, "replays", pid)
            os.makedirs(path, exist_ok=True)
            path = os.path.join(path, "died-%s.json" % digest)
            with open(path, "w") as f:
                json.dump(fl, f, indent=1)
            violations.append((path, fl["message"]))
            continue
        if fl.get("engine") in PROGRAM_ENGINES:
            # one witness per failure class: confirming and shrinking a
            # program case costs several compilations
            pre = (fl.get("engine"), fl["message"].split(":")[0])
            if pre in seen_msgs:
                continue
            seen_msgs.add(pre)
            fl = shrink_program_failure(fl, scratch)
            if fl is None:
                unconfirmed += 1
                continue
            key = fl["message"].split(":")[0]
            if key in seen_msgs:
                continue
            seen_msgs.add(key)
            digest = hashlib.sha256(json.dumps(fl["case"], sort_keys=True)
                                    .encode()).hexdigest()[:12]
            path = os.path.join(ROOT, "replays", pid, "found-%s.json" % digest)
            if NO_SAVE:
                path = os.path.join(BUILD, "scratch",
                                    "found-%s.json" % digest)
            with open(path, "w") as f:
                json.dump(fl, f, indent=1)
            violations.append((path, fl["message"]))
            continue
        tmp = os.path.join(scratch, "fail.json")
        with open(tmp, "w") as f:
            json.dump(fl, f)
        fexe = build(fl.get("engine") or cfg["engine"])
        if fl.get("crash"):
            # bounded: shrinking only makes the witness smaller (under
            # ThreadSanitizer every candidate is a multi-threaded run)
            try:
                subprocess.run([fexe, "--shrink", tmp, "--out", tmp],
                               env=worker_env(1, 1, 1),
                               stdout=subprocess.DEVNULL, timeout=600)
            except subprocess.TimeoutExpired:
                pass
            try:
                with open(tmp) as f:
                    fl = json.load(f)
            except ValueError:
                with open(tmp, "w") as f:
                    json.dump(fl, f)
        if cfg.get("tsan"):
            # a ThreadSanitizer report is evidence in itself (happens-before
            # analysis, not a timing observation): one reproduction suffices
            reps = [replay_file(fexe, tmp) for _ in range(5)]
            confirmed = any(r[0] for r in reps)
            for r in reps:
                if r[0] and r[1]:
                    fl["message"] = r[1]
        else:
            reps = [replay_file(fexe, tmp) for _ in range(3)]
        confirmed = all(r[0] for r in reps)
        if confirmed and reps[0][1] and fl.get("message", "").startswith(
                "crash"):
            fl["message"] = reps[0][1]
        if not confirmed:
            unconfirmed += 1
            continue
        key = fl["message"].split(":")[0]
        if key in seen_msgs:
            continue
        seen_msgs.add(key)
        digest = hashlib.sha256(json.dumps(fl["case"], sort_keys=True)
                                .encode()).hexdigest()[:12]
        path = os.path.join(ROOT, "replays", pid, "found-%s.json" % digest)
        if NO_SAVE:
            path = os.path.join(BUILD, "scratch", "found-%s.json" % digest)
        with open(path, "w") as f:
            json.dump(fl, f, indent=1)
        violations.append((path, fl["message"]))

    wall = time.time() - t_start
    evidence = {
        "property_id": pid, "tier": tier, "seed": seed,
        "level": "exploration",
        "coverage": {
            "evaluations": total["evaluations"] + replayed,
            "distinct_nontrivial": len(all_hashes) + extra_distinct,
            "nontrivial_total": total["nontrivial"],
            "rule": cfg["rule"],
            "samples": samples[:4],
            "classes": classes,
            "excluded_by_known_finding": excluded,
            "inconclusive": total["inconclusive"],
            "replayed_regressions": replayed,
            "replayed_showing_only_a_known_finding": replay_known,
            "unconfirmed_failures": unconfirmed,
            "workers_killed_not_reproduced": not_reproduced,
            "workers": nworkers,
            "job_groups": [dict(engine=g["engine"], workers=g["workers"],
                                cases_per_worker=g["cases"],
                                variants=g["variants"]) for g in groups],
            "exhaustive": False,
            "exhaustive_parts": exhaustive_parts,
            "coverage_guided_fuzzing": fuzz_stats,
        },
        "assumptions": cfg.get("assumptions", [
            "the reference model of DESIGN.md section 3 states the documented "
            "resolution rules",
            "registries are bounded (classes, arity <= 4, definitions per "
            "method); larger witnesses are not explored"]),
        "wall_s": round(wall, 2),
        "violations": len(violations),
    }
    if not NO_SAVE:
        os.makedirs(os.path.join(ROOT, "evidence"), exist_ok=True)
        with open(os.path.join(ROOT, "evidence", pid + ".json"), "w") as f:
            json.dump(evidence, f, indent=1)
    shutil.rmtree(scratch, ignore_errors=True)

    for line in known_lines:
        print(line)
    print("%s %s: %d cases, %d distinct non-trivial, %d replays, %.0fs" % (
        pid, tier, total["evaluations"], len(all_hashes) + extra_distinct,
        replayed, wall))
    if violations:
        for path, msg in violations:
            print("VIOLATION property=%s replay=%s" % (pid, path))
            print("  " + msg)
        return 1
    return 0


LEVEL_TEXT = (
    "generated-input search (property-based testing) against an explicit "
    "oracle; evidence counts the cases, the distinct non-trivial ones and "
    "shows samples. It can find violations within the generated bounds and "
    "cannot prove their absence.")

TITLES = {}


def write_manifest():
    props = [json.loads(l) for l in open(os.path.join(ROOT,
                                                      "properties.jsonl"))]
    checks, na = [], []
    for p in props:
        pid = p["id"]
        if pid in PROPS:
            c = PROPS[pid]
            checks.append({
                "property_id": pid,
                "quick_cmd": "python3 verif.py check %s --tier quick" % pid,
                "thorough_cmd": "python3 verif.py check %s --tier thorough"
                                % pid,
                "evidence_file": "evidence/%s.json" % pid,
                "replay_cmd_template": "python3 verif.py replay {path}",
                "engine": c.get("engine") or c.get("program"),
                "level_claimed": {
                    "category": "exploration",
                    "text": c.get("level_text", LEVEL_TEXT),
                    "design_ref": "DESIGN.md section 5, " + pid},
                "level_note": c.get("note", (
                    "Trusted: the reference model / oracle of the check, the "
                    "harness, rapidcheck, the sanitizers. Bounded registries; "
                    "no proof of absence.")),
                "technique": c.get("technique",
                                   "property-based testing (rapidcheck) with "
                                   "a reference-model oracle"),
            })
        else:
            na.append({"property_id": pid, "reason": NOT_YET.get(
                pid, "check not built yet (work in progress; the technique "
                     "applies, see DESIGN.md section 5)")})
    m = {
        "version": 1,
        "setup_cmd": "python3 verif.py setup",
        "hooks": {
            "guard": GUARD,
            "enable": "checks compile against /repo/include with -D" + GUARD,
            "baseline_off_cmd": "cmake --build /repo/_build && ctest "
                                "--test-dir /repo/_build -j8 --timeout 900",
            "source_commits": HOOK_COMMITS,
            "add_only": True},
        "engines": [
            {"name": "e1", "path": "harness/e1",
             "serves_properties": sorted(k for k, v in PROPS.items()
                                         if v.get("engine") == "e1"),
             "kind_free_text": "synthetic registries: run-time generated "
             "class graphs, methods and definitions fed to the real compiler "
             "and dispatch templates under 13 policy configurations; "
             "rapidcheck-driven, brute-force reference model"},
            {"name": "e2", "path": "harness/e2",
             "serves_properties": ["C01", "C02", "C03", "C09", "C11", "C15"],
             "kind_free_text": "typed universe: 13 real classes (chains, "
             "non-virtual multiple inheritance, virtual diamond), 22 methods "
             "in 7 parameter kinds, 6 policies built from the stock ones; "
             "registration objects constructed at run time; every "
             "virtual_ptr construction route"},
            {"name": "e2t", "path": "harness/e2",
             "serves_properties": ["C16"],
             "kind_free_text": "the typed universe built with "
             "-fsanitize=thread: concurrent callers and a concurrent updater "
             "of another policy"},
            {"name": "e3", "path": "proggen",
             "serves_properties": ["C02", "C03", "C07", "C10", "C11", "C12",
                                   "C13", "C15", "C20"],
             "kind_free_text": "seeded generators of C++ programs, compiled "
             "against /repo/include and run; the oracle is inside the "
             "generated program"},
            {"name": "e4", "path": "harness/e4", "serves_properties": ["C05"],
             "kind_free_text": "hash facets and v-table pointer vector "
             "driven directly over generated id-set histories (also built "
             "as the libFuzzer target e4f)"},
            {"name": "e5", "path": "harness/e5",
             "serves_properties": ["C07", "C14", "C18"],
             "kind_free_text": "static_list and the policy catalogs against "
             "a vector model; bounded exhaustive + random sequences; "
             "catalog isolation between policies (also built as the "
             "libFuzzer target e5f)"},
            {"name": "e6", "path": "harness/e6", "serves_properties": ["C19"],
             "kind_free_text": "forward-declaration writer over generated "
             "name sets and grammar-built type descriptions (also built as "
             "the libFuzzer target e6f)"}],
        "checks": checks,
        "not_applicable": na,
        "notes": "See DESIGN.md. known_findings.json lists genuine defects "
                 "(fixed ones with their fix: commit)."}
    with open(os.path.join(ROOT, "MANIFEST.json"), "w") as f:
        json.dump(m, f, indent=1)


NOT_YET = {}
HOOK_COMMITS = ["af6e03a"]


def main():
    args = sys.argv[1:]
    if not args:
        print(__doc__)
        return 2
    if args[0] == "setup":
        for e in engines():
            build(e)
        return 0
    if args[0] == "manifest":
        write_manifest()
        return 0
    if args[0] == "build":
        print(build(args[1]))
        return 0
    if args[0] == "check":
        global NO_SAVE
        NO_SAVE = "--no-save" in args
        pid = args[1]
        tier = os.environ.get("VERIF_TIER", "quick")
        if "--tier" in args:
            tier = args[args.index("--tier") + 1]
        seed = int(os.environ.get("VERIF_SEED", "1"))
        return check(pid, tier, seed)
    if args[0] == "replay":
        eng, j = engine_for_file(args[1])
        if eng in PROGRAM_ENGINES:
            status, msg = replay_program(j)
            failed = status != "PASS"
            if status == "KNOWN":
                print("KNOWN-FINDING: property=%s the case shows a recorded "
                      "finding (see known_findings.json)" % j["property"])
                return 0
        else:
            exe = build(eng)
            failed, msg = replay_file(exe, args[1])
        if failed:
            print("VIOLATION property=%s replay=%s" % (j["property"], args[1]))
            print("  " + msg)
            return 1
        print("PASS")
        return 0
    print(__doc__)
    return 2


if __name__ == "__main__":
    sys.exit(main())
