#!/usr/bin/env python3
"""Renders DESIGN.md from DESIGN.template.md: fills the mutant table from
tools/mutants_results.json and the seeded-changes table from seeded/*/meta.json"""
import glob, json, os
ROOT = os.path.dirname(os.path.dirname(os.path.abspath(__file__)))
tpl = open(os.path.join(ROOT, "DESIGN.template.md")).read()
rows = ["| id | property | change | quick check says |", "|---|---|---|---|"]
path = os.path.join(ROOT, "tools", "mutants_results.json")
if os.path.exists(path):
    for r in json.load(open(path)):
        d = r.get("detail", "")
        d = d.split(".json", 1)[-1].strip()[:110].replace("|", "/")
        res = r["result"]
        if res == "MISSED" and "EQUIVALENT" in r["description"]:
            res = "not detected (equivalent)"
        rows.append("| %s | %s | %s | %s%s |" % (
            r["id"], r["property"], r["description"].replace("|", "/"),
            res, (": " + d) if d and res == "detected" else ""))
mut = "\n".join(rows)
rows = ["| kept as | breaks | what the change does | needs | detected by |",
        "|---|---|---|---|---|"]
for m in sorted(glob.glob(os.path.join(ROOT, "seeded", "*", "meta.json"))):
    j = json.load(open(m))
    name = os.path.basename(os.path.dirname(m))
    rows.append("| `seeded/%s` | %s | %s | %s | %s: %s |" % (
        name, j.get("breaks_property", j.get("property")),
        j["summary"].replace("|", "/").replace("\n", " ")[:300],
        j["needs"].replace("|", "/").replace("\n", " ")[:260],
        ", ".join(j.get("detected_by", [])) or "NOT DETECTED",
        j.get("detection_detail", "").replace("|", "/")[:330]))
seeded = "\n".join(rows)
out = tpl.replace("MUTANT_TABLE", mut).replace("SEEDED_TABLE", seeded)
open(os.path.join(ROOT, "DESIGN.md"), "w").write(out)
print("DESIGN.md rendered")
