#!/usr/bin/env python3
"""archive_seed.py <id> <worktree> <name> <detected_by csv> <detail>  — copies
a confirmed seeded change into /verif/seeded/<name>/ and removes the worktree"""
import json, os, shutil, subprocess, sys
pid, wt, name, detected, detail = sys.argv[1:6]
dst = os.path.join("/verif/seeded", name)
os.makedirs(dst, exist_ok=True)
patch = subprocess.run(["git", "-C", wt, "diff", "--", "include"],
                       capture_output=True, text=True).stdout
open(os.path.join(dst, "patch.diff"), "w").write(patch)
for f in os.listdir(wt):
    if f.startswith("demo") and (f.endswith(".cpp") or f.endswith(".sh")
                                 or f.endswith(".hpp") and "tables" not in f):
        shutil.copy(os.path.join(wt, f), dst)
meta = json.load(open(os.path.join(wt, "meta.json")))
meta["breaks_property"] = pid
meta["confirmed_by_me"] = (
    "in the scratch worktree: existing suite rebuilt and run with the change "
    "(all ctest tests passed); the demonstration fails with the change and "
    "passes with the headers of HEAD; then `VERIF_REPO=<worktree> python3 "
    "verif.py check <id> --tier quick --no-save`")
meta["detected_by"] = [d for d in detected.split(",") if d]
meta["detection_detail"] = detail
json.dump(meta, open(os.path.join(dst, "meta.json"), "w"), indent=1)
subprocess.run(["git", "-C", "/repo", "worktree", "remove", "--force", wt])
print("archived", dst)
