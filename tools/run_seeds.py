#!/usr/bin/env python3
"""Re-runs the quick checks against every seeded change (seeded/*/patch.diff
applied to a scratch worktree of /repo, removed afterwards).
  tools/run_seeds.py [--only name-substring] [--round a|b|c] [--keep] [--out file]"""
import glob, json, os, subprocess, sys, tempfile
ROOT = os.path.dirname(os.path.dirname(os.path.abspath(__file__)))
args = sys.argv[1:]
only = args[args.index("--only") + 1] if "--only" in args else ""
import re
rnd = args[args.index("--round") + 1] if "--round" in args else None
out = args[args.index("--out") + 1] if "--out" in args else \
    os.path.join(ROOT, "tools", "seeds_results.json")
results = []
for d in sorted(glob.glob(os.path.join(ROOT, "seeded", "*"))):
    name = os.path.basename(d)
    if only and only not in name:
        continue
    if rnd is not None and not re.match(
            r"^C\d\d%s-" % ("" if rnd == "a" else rnd), name):
        continue
    meta = json.load(open(os.path.join(d, "meta.json")))
    props = meta.get("detected_by") or [meta.get("breaks_property")]
    wt = tempfile.mkdtemp(prefix="seedrun_", dir="/tmp")
    os.rmdir(wt)
    subprocess.run(["git", "-C", "/repo", "worktree", "add", "-q", "--detach",
                    wt, "HEAD"], check=True)
    try:
        p = subprocess.run(["git", "-C", wt, "apply",
                            os.path.join(d, "patch.diff")],
                           capture_output=True, text=True)
        if p.returncode != 0:
            results.append(dict(seed=name, result="patch does not apply",
                                detail=p.stderr[-200:]))
            print(name, "PATCH DOES NOT APPLY", flush=True)
            continue
        for prop in props:
            env = dict(os.environ, VERIF_REPO=wt)
            r = subprocess.run([sys.executable, os.path.join(ROOT, "verif.py"),
                                "check", prop, "--tier", "quick", "--no-save"],
                               env=env, capture_output=True, text=True)
            lines = [l.strip() for l in r.stdout.splitlines()
                     if l.startswith("VIOLATION") or l.startswith("  ")]
            res = "detected" if r.returncode == 1 and lines else (
                "MISSED" if r.returncode == 0 else "error")
            # keep the shrunk witness as a regression replay if it passes on
            # the unchanged tree
            kept = ""
            if res == "detected" and "--keep" in args:
                for l in lines:
                    if l.startswith("VIOLATION") and "replay=" in l:
                        src = l.split("replay=", 1)[1].strip()
                        if os.path.exists(src) and "/scratch/" in src:
                            dst = os.path.join(ROOT, "replays", prop,
                                               "seeded-%s.json" % name)
                            ok = subprocess.run(
                                [sys.executable,
                                 os.path.join(ROOT, "verif.py"), "replay",
                                 src], capture_output=True, text=True)
                            if ok.returncode == 0:
                                os.makedirs(os.path.dirname(dst),
                                            exist_ok=True)
                                os.replace(src, dst)
                                kept = dst
                            break
            results.append(dict(seed=name, check=prop, result=res,
                                detail=" ".join(lines[:2])[:300],
                                kept_replay=kept))
            print(name, prop, res, " ".join(lines[:2])[:200], flush=True)
    finally:
        subprocess.run(["git", "-C", "/repo", "worktree", "remove", "--force",
                        wt])
json.dump(results, open(out, "w"), indent=1)
