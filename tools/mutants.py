#!/usr/bin/env python3
"""Sensitivity of the checks: deliberate breakages of jll63/yomm2.

Each mutant is a small textual change to the headers, applied to a scratch
worktree of /repo (outside /repo and /verif, removed afterwards); the quick
check of the targeted property is run against it with VERIF_REPO.  A check
that stays green against its mutants is decoration.

  tools/mutants.py [--only ID[,ID...]] [--tier quick] [--out results.json]
"""
import json
import os
import subprocess
import sys
import tempfile

ROOT = os.path.dirname(os.path.dirname(os.path.abspath(__file__)))
INC = "include/yorel/yomm2/"

# (mutant id, property, file, old, new, description)
MUTANTS = [
    ("M01", "C01", INC + "detail/compiler.hpp",
     "stride *= groups[dim - 1].size();",
     "stride *= groups[dim].size();",
     "strides computed from the wrong dimension"),
    ("M02", "C01", INC + "detail/compiler.hpp",
     """                (*a_iter)->covariant_classes.find(*b_iter) !=
                (*a_iter)->covariant_classes.end()) {
                return false;
            }""",
     """                (*a_iter)->covariant_classes.find(*b_iter) !=
                (*a_iter)->covariant_classes.end()) {
                return result;
            }""",
     "is_more_specific stops at the first position where a is a base"),
    ("M03", "C10", INC + "policies/vptr_vector.hpp",
     """                vptrs[index] = iter->vptr();

                if constexpr (has_facet<Policy, indirect_vptr>) {
                    Policy::indirect_vptrs[index] = iter->indirect_vptr();
                }""",
     """                vptrs[index] = iter->vptr();

                if constexpr (has_facet<Policy, indirect_vptr>) {
                    Policy::indirect_vptrs[index] = iter->indirect_vptr();
                    break; // only the first id of a class
                }""",
     "indirect policies publish only the first id of a class"),
    ("M04", "C02", INC + "core.hpp",
     "        error.status = resolution_error::ambiguous;\n        error.method_name = fn.name;\n        error.arity = arity;",
     "        error.status = resolution_error::ambiguous;\n        error.method_name = fn.name;\n        error.arity = sizeof...(args);",
     "ambiguity errors report the number of arguments as arity"),
    ("M05", "C02", INC + "detail/compiler.hpp",
     """        meth_iter->ambiguous.pf =
            reinterpret_cast<uintptr_t>(meth_iter->info->ambiguous);""",
     """        meth_iter->ambiguous.pf =
            reinterpret_cast<uintptr_t>(meth_iter->info->not_implemented);""",
     "ambiguous cells point to the not-implemented handler"),
    ("M06", "C02", INC + "core.hpp",
     """        Policy::error(error_type(std::move(error)));
    }

    abort(); // in case user handler "forgets" to abort
}

template<typename Key, typename R, class Policy, typename... A>
BOOST_NORETURN typename method<Key, R(A...), Policy>::return_type
method<Key, R(A...), Policy>::ambiguous_handler(""",
     """        Policy::error(error_type(std::move(error)));
    }

    // abort(); in case user handler "forgets" to abort
    while (true) {
        throw 0;
    }
}

template<typename Key, typename R, class Policy, typename... A>
BOOST_NORETURN typename method<Key, R(A...), Policy>::return_type
method<Key, R(A...), Policy>::ambiguous_handler(""",
     "not-implemented handler no longer aborts when the user handler returns"),
    ("M07", "C03", INC + "detail/compiler.hpp",
     """    bool result = false;

    auto a_iter = a->vp.begin(), a_last = a->vp.end(), b_iter = b->vp.begin();

    for (; a_iter != a_last; ++a_iter, ++b_iter) {
        if (*a_iter != *b_iter) {
            if ((*a_iter)->covariant_classes.find(*b_iter) ==""",
     """    bool result = a != b;

    auto a_iter = a->vp.begin(), a_last = a->vp.end(), b_iter = b->vp.begin();

    for (; a_iter != a_last; ++a_iter, ++b_iter) {
        if (*a_iter != *b_iter) {
            if ((*a_iter)->covariant_classes.find(*b_iter) ==""",
     "is_base accepts another definition with the same parameter classes"),
    ("M08", "C03", INC + "detail/compiler.hpp",
     """                if (spec.info->next) {
                    *spec.info->next = next;
                }""",
     """                if (spec.info->next && !*spec.info->next) {
                    *spec.info->next = next;
                }""",
     "next is only written the first time (not recomputed by later updates)"),
    ("M09", "C04", INC + "detail/compiler.hpp",
     """                for (auto base : cls.transitive_bases) {
                    ++trace << *base << "\\n";
                    detail::merge_into(cls.used_slots, base->reserved_slots);
                }""",
     """                for (auto base : cls.direct_bases) {
                    ++trace << *base << "\\n";
                    detail::merge_into(cls.used_slots, base->reserved_slots);
                }""",
     "lattice slots reserved in direct bases only"),
    ("M10", "C04", INC + "detail/compiler.hpp",
     """        [](auto sum, auto& cls) { return sum + cls.vtbl.size(); });

    Policy::dispatch_data.resize(dispatch_data_size);""",
     """        [](auto sum, auto& cls) { return sum + cls.vtbl.size(); });

    if (Policy::dispatch_data.size() < dispatch_data_size)
        Policy::dispatch_data.resize(dispatch_data_size);""",
     "dispatch_data never shrinks (EQUIVALENT: every legal read stays in "
     "the part the last update wrote; nothing observable changes)"),
    ("M11", "C05", INC + "policies/fast_perfect_hash.hpp",
     "            hash_length = hash_max + 1;",
     "            hash_length = hash_max;",
     "hash_length off by one"),
    ("M12", "C05", INC + "policies/fast_perfect_hash.hpp",
     """        if (index >= fast_perfect_hash<Policy>::hash_length ||
            control[index] != type) {""",
     """        if (index >= fast_perfect_hash<Policy>::hash_length ||
            control[index] == static_cast<type_id>(-1)) {""",
     "checked hash only rejects ids that land on an empty bucket"),
    ("M13", "C06", INC + "detail/compiler.hpp",
     """    for (auto spec : candidates) {
        if (std::all_of(
                candidates.begin(), candidates.end(), [spec](auto other) {
                    return other == spec || is_more_specific(spec, other);
                })) {
            return {spec};
        }
    }""",
     """    for (auto spec : candidates) {
        if (std::none_of(
                candidates.begin(), candidates.end(), [spec](auto other) {
                    return other != spec && is_more_specific(other, spec);
                })) {
            if (candidates.size() > 2) return {spec};
        }
    }
    for (auto spec : candidates) {
        if (std::all_of(
                candidates.begin(), candidates.end(), [spec](auto other) {
                    return other == spec || is_more_specific(spec, other);
                })) {
            return {spec};
        }
    }""",
     "with 3+ candidates the first undominated one wins (order dependent)"),
    ("M14", "C07", INC + "detail.hpp",
     """    if (method) {
        method->specs.remove(*this);
    }""",
     """    if (method && method->specs.size() > 1) {
        method->specs.remove(*this);
    }""",
     "the last definition of a method is never unregistered"),
    ("M15", "C07", INC + "policies/vptr_vector.hpp",
     "        vptrs.resize(size);\n",
     "        if (vptrs.size() < size) vptrs.resize(size);\n",
     "vptrs vector never shrinks (EQUIVALENT: stale entries are only "
     "reachable through ids that are no longer registered)"),
    ("M16", "C08", INC + "detail/compiler.hpp",
     """                rtc.transitive_bases.insert(
                    rtc.transitive_bases.end(), rtb->transitive_bases.begin(),
                    rtb->transitive_bases.end());""",
     """                if (rtc.transitive_bases.size() < 4)
                rtc.transitive_bases.insert(
                    rtc.transitive_bases.end(), rtb->transitive_bases.begin(),
                    rtb->transitive_bases.end());""",
     "transitive closure of base lists stops for classes with many listed "
     "bases"),
    ("M17", "C09", INC + "core.hpp",
     """    template<class Other>
    virtual_ptr(virtual_ptr<Other, Policy>&& other)
        : obj(std::move(other.obj)), vptr(other.vptr) {
    }""",
     """    template<class Other>
    virtual_ptr(virtual_ptr<Other, Policy>&& other)
        : obj(std::move(other.obj)), vptr(other.vptr) {
        if constexpr (!std::is_same_v<Other, Class> && !IsSmartPtr) {
            if constexpr (is_indirect) {
                vptr = &Policy::template static_vptr<Class>;
            } else {
                vptr = Policy::template static_vptr<Class>;
            }
        }
    }""",
     "converting move constructor re-derives the v-table from the static type"),
    ("M18", "C09", INC + "policies/vptr_vector.hpp",
     "                    Policy::indirect_vptrs[index] = iter->indirect_vptr();",
     "                    static std::vector<const std::uintptr_t*> snapshot(4096);\n"
     "                    snapshot[index % 4096] = iter->vptr();\n"
     "                    Policy::indirect_vptrs[index] = &snapshot[index % 4096];",
     "indirect table points at a snapshot of the v-table pointer, stale after "
     "the next update... (only for dynamic lookups)"),
    ("M19", "C10", INC + "detail/compiler.hpp",
     """            if (std::find(
                    rtc->type_ids.begin(), rtc->type_ids.end(), cr.type) ==
                rtc->type_ids.end()) {""",
     """            if (rtc->type_ids.empty()) {""",
     "only the first type id of a class is kept"),
    ("M20", "C12", INC + "generator.hpp",
     "            os << comma << method.slots_strides_ptr[method.arity() + i - 1];",
     "            os << comma << method.slots_strides_ptr[method.arity() + (i > 2 ? 1 : i - 1)];",
     "third stride of arity-4 methods written wrong"),
    ("M21", "C13", INC + "generator.hpp",
     "            auto stop = &entry == &cls.vtbl.back() ? stop_bit : 0;",
     "            auto stop = &entry == &cls.vtbl.back() && cls.vtbl.size() < 6 ? stop_bit : 0;",
     "no stop bit on v-tables with six or more entries"),
    ("M22", "C14", INC + "policies/vectored_error.hpp",
     """template<class Policy, typename DefaultHandlerProvider>
error_handler_type vectored_error<Policy, DefaultHandlerProvider>::error =""",
     """template<class Policy, typename DefaultHandlerProvider>
error_handler_type vectored_error<Policy, DefaultHandlerProvider>::error =""",
     "placeholder (replaced below)"),
    ("M23", "C15", INC + "detail/compiler.hpp",
     """            auto rtb = class_map[Policy::type_index(*base_iter)];

            if (!rtb) {""",
     """            auto rtb = class_map[Policy::type_index(*base_iter)];

            if (!rtb && base_iter == cr.first_base) {""",
     "only the first listed base is checked for registration"),
    ("M24", "C17", INC + "detail/compiler.hpp",
     """                if (concrete && group.has_concrete_classes) {
                    ++m.report.concrete_not_implemented;""",
     """                if (concrete) {
                    ++m.report.concrete_not_implemented;""",
     "concrete_not_implemented ignores the first dimension's group"),
    ("M25", "C17", INC + "detail/compiler.hpp",
     "                for (const auto& dim_groups : groups) {\n                    m.report.cells *= dim_groups.size();",
     "                for (const auto& dim_groups : groups) {\n                    m.report.cells *= (std::max)(dim_groups.size(), std::size_t(2)) - (dim_groups.size() < 2);",
     "placeholder identical value (must NOT be detected)"),
    ("M26", "C18", INC + "detail/static_list.hpp",
     """            first->prev_ptr = prev;
            prev->next_ptr = nullptr;
            return;""",
     """            prev->next_ptr = nullptr;
            return;""",
     "removing the last element does not update the tail pointer"),
    ("M27", "C19", INC + "generator.hpp",
     """                    if (*prev_ns_iter == ':') {
                        os << "}\\n";
                        ++prev_ns_iter;
                    }
                    ++prev_ns_iter;
                }

                while (name_iter != name.begin() && name_iter[-1] != ':') {""",
     """                    if (*prev_ns_iter == ':') {
                        os << "}\\n";
                        ++prev_ns_iter;
                    }
                    ++prev_ns_iter;
                }

                while (name_iter != name.begin() && name_iter[-1] != ':' && name_iter[-1] != 'b') {""",
     "back-tracking to the namespace boundary stops at a 'b'"),
    ("M28", "C20", INC + "templates.hpp",
     """    mp11::mp_apply<aggregate, mp11::mp_take_c<types<T...>, sizeof...(T) / 2>>,
    mp11::mp_apply<aggregate, mp11::mp_drop_c<types<T...>, sizeof...(T) / 2>>""",
     """    mp11::mp_apply<aggregate, mp11::mp_take_c<types<T...>, sizeof...(T) / 2>>,
    mp11::mp_apply<aggregate, mp11::mp_drop_c<types<T...>, sizeof...(T) / 2 + 1>>""",
     "the split of large aggregates drops one definition"),
    ("M29", "C11", INC + "detail.hpp",
     """        if constexpr (requires_dynamic_cast<T*, DERIVED>) {
            return std::dynamic_pointer_cast<
                typename shared_ptr_traits<DERIVED>::polymorphic_type>(obj);
        } else {
            return std::static_pointer_cast<
                typename shared_ptr_traits<DERIVED>::polymorphic_type>(obj);
        }
    }
};

template<typename MethodArgList>""",
     """        if constexpr (requires_dynamic_cast<T*, DERIVED>) {
            return std::dynamic_pointer_cast<
                typename shared_ptr_traits<DERIVED>::polymorphic_type>(obj);
        } else {
            using D = typename shared_ptr_traits<DERIVED>::polymorphic_type;
            return std::shared_ptr<D>(static_cast<D*>(obj.get()), [](D*) {});
        }
    }
};

template<typename MethodArgList>""",
     "shared_ptr by value loses shared ownership (new control block)"),
    ("M30", "C16", INC + "policies/fast_perfect_hash.hpp",
     """        hash_type_id(type_id type) {
        return (hash_mult * type) >> hash_shift;""",
     """        hash_type_id(type_id type) {
        static type_id last_type, last_index;
        if (type == last_type && last_type) return last_index;
        last_type = type;
        last_index = (hash_mult * type) >> hash_shift;
        return last_index;""",
     "a memoising cache in the hash (data race between callers)"),
]

# M22 and M25 are placeholders kept out of the run
SKIP = {"M22", "M25"}
EQUIVALENT = {"M10", "M15"}


def main():
    args = sys.argv[1:]
    only = None
    tier = "quick"
    out = os.path.join(ROOT, "tools", "mutants_results.json")
    if "--only" in args:
        only = set(args[args.index("--only") + 1].split(","))
    if "--tier" in args:
        tier = args[args.index("--tier") + 1]
    if "--out" in args:
        out = args[args.index("--out") + 1]
    repo = os.environ.get("MUTANT_REPO", "/repo")
    results = []
    for mid, prop, path, old, new, desc in MUTANTS:
        if mid in SKIP or (only and mid not in only and prop not in only):
            continue
        wt = tempfile.mkdtemp(prefix="mut_%s_" % mid, dir="/tmp")
        os.rmdir(wt)
        subprocess.run(["git", "-C", repo, "worktree", "add", "-q",
                        "--detach", wt, "HEAD"], check=True)
        try:
            full = os.path.join(wt, path)
            with open(full) as f:
                text = f.read()
            if text.count(old) != 1:
                results.append(dict(id=mid, property=prop, description=desc,
                                    result="does not apply (%d matches)" %
                                    text.count(old)))
                print(mid, prop, "DOES NOT APPLY", flush=True)
                continue
            with open(full, "w") as f:
                f.write(text.replace(old, new))
            env = dict(os.environ, VERIF_REPO=wt, VERIF_TIER=tier)
            p = subprocess.run(
                [sys.executable, os.path.join(ROOT, "verif.py"), "check",
                 prop, "--tier", tier, "--no-save"],
                env=env, capture_output=True, text=True)
            lines = [l for l in p.stdout.splitlines()
                     if l.startswith("VIOLATION") or l.startswith("  ")]
            detected = p.returncode == 1 and any(
                l.startswith("VIOLATION") for l in lines)
            results.append(dict(
                id=mid, property=prop, description=desc,
                result="detected" if detected else
                ("build or run error" if p.returncode not in (0, 1)
                 else "MISSED"),
                detail=" ".join(l.strip() for l in lines[:2])[:400],
                stderr=p.stderr[-300:] if p.returncode not in (0, 1) else ""))
            print(mid, prop, results[-1]["result"], results[-1]["detail"],
                  flush=True)
        finally:
            subprocess.run(["git", "-C", repo, "worktree", "remove", "--force",
                            wt])
    with open(out, "w") as f:
        json.dump(results, f, indent=1)
    return 0


if __name__ == "__main__":
    sys.exit(main())
