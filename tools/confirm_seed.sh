#!/bin/bash
# Confirms an independently written property-breaking change kept in a scratch
# worktree: (1) the existing suite still passes with it, (2) its demonstration
# fails with it and passes without it, (3) what the quick check of the
# property says.  usage: confirm_seed.sh <property id> <worktree> [check ids...]
set -u
ID=$1; WT=$2; shift 2
CHECKS=${@:-$ID}
cd "$WT" || exit 2
echo "== patch"; git diff --stat -- include | tail -2
echo "== suite with the change"
cmake -G Ninja -S "$WT" -B "$WT/_b" -DCMAKE_BUILD_TYPE=RelWithDebInfo -DCMAKE_CXX_FLAGS=-Wno-error -DYOMM2_ENABLE_TESTS=ON >/dev/null 2>&1
cmake --build "$WT/_b" -j6 2>&1 | tail -1
ctest --test-dir "$WT/_b" -j8 2>&1 | grep -E "tests passed|tests failed"
rm -rf "$WT/_b"
if [ -f "$WT/demo.sh" ]; then DEMO="bash ./demo.sh"; else
DEMO=$(python3 -c "
import json,re
d=json.load(open('$WT/meta.json'))['demo_cmd']
d=re.split(r'\s{2,}\(|\s+#', d)[0]
print(d)")
fi
echo "== demo with the change: $DEMO"
( cd "$WT" && bash -c "$DEMO" ) > /tmp/demo_with_$ID.txt 2>&1; echo "exit $?"; tail -3 /tmp/demo_with_$ID.txt
git diff -- include > /tmp/seed_patch_$ID.diff
git checkout -- include
echo "== demo without the change"
( cd "$WT" && bash -c "$DEMO" ) > /tmp/demo_without_$ID.txt 2>&1; echo "exit $?"; tail -2 /tmp/demo_without_$ID.txt
git apply /tmp/seed_patch_$ID.diff
for C in $CHECKS; do
  echo "== check $C against the change"
  ( cd /verif && VERIF_REPO="$WT" python3 verif.py check $C --tier quick --no-save 2>&1 | grep -v WARNING | tail -4 )
done
